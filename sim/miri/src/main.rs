//! Tiny encoder (and safe-path decoder) cases for Miri: the pointer arithmetic of the
//! `optimization` feature outside the inline assembly (extend_match, the u16 fast reject,
//! AlignedMemoryI32). Miri cannot execute `asm!`, so the buffered LZMA2 decoder with direct bits
//! is not run here; the stream decoder (LZMAReader) uses the portable loop and is.
//!
//! usage: lzsim-miri <first seed> <count>

use lz_std as lz;
use std::io::{Read, Write};

fn splitmix(x: &mut u64) -> u64 {
    *x = x.wrapping_add(0x9E3779B97F4A7C15);
    let mut z = *x;
    z = (z ^ (z >> 30)).wrapping_mul(0xBF58476D1CE4E5B9);
    z = (z ^ (z >> 27)).wrapping_mul(0x94D049BB133111EB);
    z ^ (z >> 31)
}

fn main() {
    let args: Vec<String> = std::env::args().collect();
    let first: u64 = args.get(1).and_then(|s| s.parse().ok()).unwrap_or(0);
    let count: u64 = args.get(2).and_then(|s| s.parse().ok()).unwrap_or(4);
    let mut ran = 0;
    for seed in first..first + count {
        let mut x = seed ^ 0xC15;
        let len = (splitmix(&mut x) % 700) as usize;
        let class = splitmix(&mut x) % 4;
        let mut data = vec![0u8; len];
        for (i, b) in data.iter_mut().enumerate() {
            *b = match class {
                0 => (i % 7) as u8,
                1 => (splitmix(&mut x) >> 24) as u8,
                2 => b"abcabcabcd"[i % 10],
                _ => if i % 97 < 60 { 0 } else { (splitmix(&mut x) >> 8) as u8 },
            };
        }
        let mode = if splitmix(&mut x) % 2 == 0 { lz::EncodeMode::Fast } else { lz::EncodeMode::Normal };
        let mf = if splitmix(&mut x) % 2 == 0 { lz::MFType::HC4 } else { lz::MFType::BT4 };
        let nice = [8u32, 16, 64, 273][(splitmix(&mut x) % 4) as usize];
        let opts = lz::LZMAOptions::new(4096, 3, 0, 2, mode, nice, mf, 0);
        // raw LZMA with end marker through the stream decoder (portable range decoder)
        let mut out = Vec::new();
        {
            let mut w = lz::LZMAWriter::new_no_header(&mut out, &opts, true).unwrap();
            let cut = len / 3;
            w.write_all(&data[..cut]).unwrap();
            w.write_all(&data[cut..]).unwrap();
            w.finish().unwrap();
        }
        let mut back = Vec::new();
        lz::LZMAReader::new(out.as_slice(), u64::MAX, 3, 0, 2, 4096, None).unwrap().read_to_end(&mut back).unwrap();
        assert_eq!(back, data, "seed {seed}");
        // LZMA2 encoder as well (its decoder needs the assembly, so encode only)
        let mut out2 = Vec::new();
        {
            let mut w = lz::LZMA2Writer::new(&mut out2, lz::LZMA2Options { lzma_options: opts, chunk_size: None });
            w.write_all(&data).unwrap();
            w.flush().unwrap();
            w.finish().unwrap();
        }
        ran += 1;
        println!("miri seed {seed}: {len} bytes -> {} / {} bytes ok", out.len(), out2.len());
    }
    println!("MIRI-OK {ran}");
}
