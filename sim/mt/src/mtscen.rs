//! Multi-threaded scenario families (C08, C09, C10, C13c and the MT parts of C12/C18): the real
//! LZMA2ReaderMT / LZMA2WriterMT / LZIPReaderMT / LZIPWriterMT code runs on shuttle's primitives
//! and `SimScheduler` decides every interleaving.

use crate::codec;
use crate::common::{first_diff, is_prefix, structure_reach, End};
use crate::lz;
use crate::sched::{Record, SimScheduler};
use shuttle::{Config, MaxSteps, Runner};
use simcore::case::{benign_policy, biased_len, random_input, random_rbufs, random_wops, Case, IoFault, IoPolicy, Sched, StFault, Violation, WOp};
use simcore::io::{flush_retry, read_all, write_all_retry, IoStats, ReadEnd, SimSink, SimSource};
use simcore::parsers;
use simcore::rng::Rng;
use simcore::run::{classify_panic, guarded, Ctx, RunResult};
use std::io::{Read, Write};
use std::sync::{Arc, Mutex};

// ---------------------------------------------------------------------------------------------
// generation
// ---------------------------------------------------------------------------------------------

pub fn random_sched(rng: &mut Rng) -> Sched {
    match rng.below(10) {
        0 => Sched { mode: "rr".into(), ..Default::default() },
        1..=5 => Sched { mode: "random".into(), seed: rng.next_u64(), ..Default::default() },
        _ => Sched { mode: "pct".into(), seed: rng.next_u64(), depth: rng.range(1, 3) as u32, ..Default::default() },
    }
}

fn mt_opts(rng: &mut Rng, case: &mut Case) {
    let o = &mut case.opt;
    o.dict = *rng.pick(&[4096u32, 4096, 8192, 5000]);
    o.mode = rng.below(2) as u8;
    o.mf = rng.below(2) as u8;
    o.nice = *rng.pick(&[8u32, 32, 64, 273]);
    o.depth = *rng.pick(&[0i32, 0, 4]);
    if case.fmt == "lzma2mt" && rng.pct(30) {
        o.lc = rng.range(0, 4) as u32;
        o.lp = rng.range(0, 4 - o.lc as u64) as u32;
        o.pb = rng.range(0, 4) as u32;
    }
    o.workers = *rng.pick(&[1u32, 2, 2, 3, 3, 4, 8, 0, 300]);
    // unit size: the MT writers raise it to the dictionary size
    o.unit = Some(*rng.pick(&[1u64, o.dict as u64, o.dict as u64, o.dict as u64 + 1000, 6000]));
}

pub fn gen(prop: &str, scen: &str, _k: u64, seed: u64, tier: &str) -> Case {
    let rng = Rng::new(seed);
    let mut case = Case { prop: prop.into(), scen: scen.into(), seed, ..Default::default() };
    let big = tier == "thorough";
    let mut r_in = rng.fork("input");
    let mut r_opt = rng.fork("opts");
    let mut r_ops = rng.fork("ops");
    let mut r_f = rng.fork("faults");
    let mut r_s = rng.fork("sched");
    case.fmt = if r_opt.pct(50) { "lzma2mt".into() } else { "lzipmt".into() };
    mt_opts(&mut r_opt, &mut case);
    let unit = case.opt.unit.unwrap().max(case.opt.dict as u64) as usize;
    let units = match r_in.below(10) {
        0 => 0,
        1 | 2 => 1,
        _ => r_in.urange(2, if big { 12 } else { 7 }),
    };
    let len = if units == 0 { r_in.urange(0, 3) } else { (units - 1) * unit + biased_len(&mut r_in, unit, &[unit, 1]) };
    case.input = random_input(&mut r_in, len, case.opt.dict);
    case.sched = random_sched(&mut r_s);
    case.rbufs = random_rbufs(&mut r_ops);
    let writer_role = r_ops.pct(50) || scen == "mt.determ";
    case.set("role", if writer_role { 0 } else { 1 });
    case.set("stream_kind", r_in.below(7) as i64);
    if writer_role {
        case.wops = random_wops(&mut r_ops, len, true, 30);
        if case.fmt == "lzma2mt" && r_in.pct(25) {
            // a preset dictionary in the options of the MT writer (readers get the same one)
            let plen = *r_in.pick(&[1usize, 300, case.opt.dict as usize, case.opt.dict as usize + 500]);
            let mut p = simcore::case::InputSpec::new("text", plen, r_in.next_u64());
            if r_in.pct(50) {
                // the same kind of material as the data, so that matches into it are attractive
                p = case.input.clone();
                p.len = plen;
            }
            case.opt.preset = Some(p);
        }
    } else if case.fmt == "lzma2mt" && case.knob("stream_kind") == 0 && r_in.pct(40) {
        // a stream of dependent chunks that relies on a preset dictionary
        let plen = *r_in.pick(&[1usize, 100, 3000, case.opt.dict as usize, case.opt.dict as usize + 500]);
        case.opt.preset = Some(simcore::case::InputSpec::new("text", plen, r_in.next_u64()));
    }
    if scen == "mt.sizes" && r_in.pct(60) {
        // units that begin with incompressible data start with an uncompressed (0x01) chunk
        case.input.class = (*r_in.pick(&["random", "mixed", "incomp_then_comp"])).into();
        case.input.p1 = *r_in.pick(&[64u64, 3000, 50]);
    }
    match scen {
        "mt.equiv" | "mt.determ" | "mt.sizes" => {
            if r_f.pct(40) {
                case.src_policy = benign_policy(&mut r_f);
                case.sink_policy = benign_policy(&mut r_f);
                // Interrupted from a sink is retried by write_all inside the library; from a
                // source by read_exact. Both are benign here.
            }
        }
        "mt.fault" => {
            if writer_role {
                match r_f.below(4) {
                    3 => {
                        // options only the worker rejects: the failure has to reach the caller
                        case.fmt = "lzipmt".into();
                        case.set("bad_options", 1);
                        if r_f.pct(50) {
                            case.opt.nice = *r_f.pick(&[0u32, 1, 274, 1000]);
                        } else {
                            case.opt.preset = Some(simcore::case::InputSpec::new("text", *r_f.pick(&[1usize, 5000, 1 << 20]), 3));
                        }
                        // few units and a flush before finish are the interesting histories
                        if r_f.pct(50) {
                            case.input.len = r_f.urange(1, 3000);
                            case.wops = vec![WOp::W(usize::MAX), WOp::F];
                        }
                    }
                    0 => case.sink_faults.push(IoFault { at: r_f.below(12), kind: "err_p".into(), arg: r_f.below(6) }),
                    1 => case.sink_faults.push(IoFault { at: r_f.below(3), kind: "flush_err".into(), arg: r_f.below(6) }),
                    _ => case.sink_faults.push(IoFault { at: r_f.below(12), kind: "zero".into(), arg: 0 }),
                }
            } else {
                match r_f.below(10) {
                    8 | 9 => {
                        // a size field of a member trailer at an extreme: the MT LZIP reader walks
                        // the file backwards by these fields and has to come to an end
                        case.fmt = "lzipmt".into();
                        case.set("trailer_member", r_f.below(12) as i64);
                        case.set("trailer_field", r_f.below(2) as i64);
                        case.set("trailer_value", *r_f.pick(&[0i64, 0, 1, 19, 20, 26, i64::MAX, -1]));
                        case.set("trailer_delta", *r_f.pick(&[0i64, 0, 0, 1, -1]));
                    }
                    0 => case.storage.push(StFault { kind: "trunc".into(), a: 0, ..Default::default() }),
                    1 => case.storage.push(StFault { kind: "drop_last".into(), a: 1, ..Default::default() }),
                    2 => case.storage.push(StFault { kind: "trunc_frac".into(), a: r_f.below(1000), ..Default::default() }),
                    3 | 4 => case.storage.push(StFault { kind: "flip_frac".into(), a: r_f.below(1000), b: r_f.below(8), ..Default::default() }),
                    5 => case.src_faults.push(IoFault { at: r_f.below(40), kind: "err_p".into(), arg: r_f.below(6) }),
                    6 => case.src_faults.push(IoFault { at: r_f.below(6), kind: "seek_err".into(), arg: r_f.below(6) }),
                    _ => case.storage.push(StFault { kind: "subst_frac".into(), a: r_f.below(1000), b: r_f.below(256), ..Default::default() }),
                }
            }
        }
        "mt.corrupt" => {
            // C04 for the multi-threaded LZIP reader: storage faults on a valid multi-member file
            case.set("role", 1);
            case.fmt = "lzipmt".into();
            case.wops.clear();
            for _ in 0..r_f.range(1, 2) {
                match r_f.below(3) {
                    0 => case.storage.push(StFault { kind: "flip_frac".into(), a: r_f.below(1000), b: r_f.below(8), ..Default::default() }),
                    1 => case.storage.push(StFault { kind: "subst_frac".into(), a: r_f.below(1000), b: r_f.below(256), ..Default::default() }),
                    _ => case.storage.push(StFault { kind: "trunc_frac".into(), a: r_f.below(1000), ..Default::default() }),
                }
            }
        }
        "mt.hostile" => {
            case.set("role", 1);
            case.set("hostile", 1);
            match r_f.below(5) {
                4 => {
                    // size fields of a member trailer at their extremes (the MT LZIP reader
                    // walks the file backwards by these fields)
                    case.fmt = "lzipmt".into();
                    case.set("trailer_member", r_f.below(12) as i64);
                    case.set("trailer_field", r_f.below(2) as i64);
                    case.set("trailer_value", *r_f.pick(&[0i64, 1, 19, 20, 25, 26, 27, i64::MAX, -1, 1 << 40]));
                    case.set("trailer_delta", *r_f.pick(&[0i64, 0, 1, -1, 6, -6]));
                }
                0 => {
                    // pure garbage, optionally behind a plausible start
                    case.set("garbage", 1 + r_f.below(3) as i64);
                    case.input = simcore::case::InputSpec::new("random", r_f.urange(0, 3000), r_f.next_u64());
                }
                1 => {
                    case.set("many", *r_f.pick(&[50i64, 500, 3000, if big { 40000 } else { 8000 }]));
                    case.input = simcore::case::InputSpec::new("text", r_f.urange(0, 20), 1);
                    case.rbufs = vec![65536];
                }
                _ => {
                    for _ in 0..r_f.range(1, 4) {
                        let mut f = simcore::storage::random_fault(&mut r_f, 1000);
                        f.name = "permille".into();
                        case.storage.push(f);
                    }
                }
            }
            case.set("stack_kib", *r_f.pick(&[256i64, 1024]));
        }
        "mt.drop" => {
            // drop point: after `drop_at` caller operations (writer ops or reads)
            case.set("drop_at", r_ops.below(12) as i64);
            case.set("drop_mode", r_ops.below(3) as i64); // 0 drop mid-way, 1 finish/read to end then drop, 2 after an injected error
            if writer_role && r_ops.pct(35) {
                // several whole units (workers get spawned), a flush (all of them end up parked),
                // then fewer new units than parked workers, and the drop right behind them
                let k = r_ops.urange(2, 6);
                let more = r_ops.urange(1, 3);
                case.input.len = (k + more) * unit + r_ops.urange(0, 1) * (unit / 2);
                let mut ops: Vec<WOp> = (0..k).map(|_| WOp::W(unit)).collect();
                ops.push(WOp::F);
                for _ in 0..more {
                    ops.push(WOp::W(unit));
                }
                case.set("drop_at", ops.len() as i64);
                case.set("drop_mode", 0);
                case.wops = ops;
                if case.opt.workers < 3 {
                    case.opt.workers = *r_ops.pick(&[3u32, 4, 8]);
                }
                // uniform random choices interleave coordinator and workers best for this shape
                case.sched = Sched { mode: "random".into(), seed: r_ops.next_u64(), ..Default::default() };
            }
            if case.knob("drop_mode") == 2 {
                if writer_role {
                    case.sink_faults.push(IoFault { at: r_f.below(6), kind: "err_p".into(), arg: 1 });
                } else {
                    case.storage.push(StFault { kind: "flip_frac".into(), a: r_f.below(1000), b: r_f.below(8), ..Default::default() });
                }
            }
        }
        _ => {}
    }
    case
}

// ---------------------------------------------------------------------------------------------
// streams for the reader role
// ---------------------------------------------------------------------------------------------

fn st_case(case: &Case) -> Case {
    let mut c = case.clone();
    c.fmt = if case.fmt == "lzma2mt" { "lzma2".into() } else { "lzip".into() };
    c.wops.clear();
    c
}

/// Builds a valid stream for the MT readers without using the MT writers.
pub fn build_stream(case: &Case, data: &[u8]) -> Result<Vec<u8>, String> {
    let unit = case.opt.unit.unwrap_or(case.opt.dict as u64).max(case.opt.dict as u64) as usize;
    let kind = case.knob("stream_kind");
    let st = st_case(case);
    if case.fmt == "lzma2mt" {
        match kind {
            0 => {
                // one dependent run of chunks from the single-threaded writer
                let mut c = st.clone();
                c.opt.unit = None;
                codec::encode_vec(&c, data).map_err(|e| format!("{}:{}", e.0, e.1))
            }
            6 => {
                // units that reset the coder state but NOT the dictionary (control 0xC0): each
                // piece after the first comes from a fresh writer primed with the data in front
                // of it as preset dictionary, so its matches reach back into the previous pieces
                let mut out = Vec::new();
                let mut c = st.clone();
                c.opt.unit = None;
                c.opt.preset = None;
                let dict = c.opt.dict as usize;
                let mut done = 0usize;
                for piece in data.chunks(unit.max(1)) {
                    let mut o = codec::lzma2_options(&c.opt);
                    if done > 0 {
                        o.lzma_options.preset_dict = Some(data[done.saturating_sub(dict)..done].to_vec());
                    }
                    let mut w = lz::LZMA2Writer::new(Vec::new(), o);
                    w.write_all(piece).map_err(|e| e.to_string())?;
                    w.flush().map_err(|e| e.to_string())?;
                    out.extend_from_slice(&w.into_inner());
                    done += piece.len();
                }
                out.push(0);
                Ok(out)
            }
            _ => {
                // independent units: fresh writer per unit, flush, no terminator; one 0x00 at the end
                let mut out = Vec::new();
                let mut c = st.clone();
                c.opt.unit = None;
                c.opt.preset = None;
                for piece in data.chunks(unit.max(1)) {
                    let mut w = lz::LZMA2Writer::new(Vec::new(), codec::lzma2_options(&c.opt));
                    w.write_all(piece).map_err(|e| e.to_string())?;
                    w.flush().map_err(|e| e.to_string())?;
                    out.extend_from_slice(&w.into_inner());
                }
                out.push(0);
                if kind == 4 {
                    out.extend_from_slice(b"trailing bytes after the terminator");
                }
                Ok(out)
            }
        }
    } else {
        match kind {
            0 => {
                let mut c = st.clone();
                c.opt.unit = None;
                codec::encode_vec(&c, data).map_err(|e| format!("{}:{}", e.0, e.1))
            }
            1 => codec::encode_vec(&st, data).map_err(|e| format!("{}:{}", e.0, e.1)),
            _ => {
                // concatenated single-member files, with an empty member in some positions
                let mut out = Vec::new();
                let mut c = st.clone();
                c.opt.unit = None;
                let mut i = 0;
                for piece in data.chunks(unit.max(1)) {
                    out.extend_from_slice(&codec::encode_vec(&c, piece).map_err(|e| format!("{}:{}", e.0, e.1))?);
                    if kind == 5 && i % 2 == 0 {
                        out.extend_from_slice(&codec::encode_vec(&c, &[]).map_err(|e| format!("{}:{}", e.0, e.1))?);
                    }
                    i += 1;
                }
                if data.is_empty() {
                    out.extend_from_slice(&codec::encode_vec(&c, &[]).map_err(|e| format!("{}:{}", e.0, e.1))?);
                }
                Ok(out)
            }
        }
    }
}

pub fn apply_storage(stream: &mut Vec<u8>, faults: &[StFault]) -> u64 {
    let mut applied = 0;
    for f in faults {
        let n = stream.len();
        match f.kind.as_str() {
            "trunc" => {
                stream.truncate(f.a as usize);
                applied += 1;
            }
            "drop_last" => {
                let k = (f.a as usize).min(n);
                stream.truncate(n - k);
                applied += 1;
            }
            "trunc_frac" if n > 0 => {
                stream.truncate((n as u64 * f.a / 1000) as usize);
                applied += 1;
            }
            "flip_frac" if n > 0 => {
                let p = ((n as u64 * f.a / 1000) as usize).min(n - 1);
                stream[p] ^= 1 << (f.b & 7);
                applied += 1;
            }
            "subst_frac" if n > 0 => {
                let p = ((n as u64 * f.a / 1000) as usize).min(n - 1);
                if stream[p] != f.b as u8 {
                    stream[p] = f.b as u8;
                    applied += 1;
                }
            }
            _ => {}
        }
    }
    applied
}

/// What the single-threaded reader of the same instance does with `stream`.
pub fn st_decode(case: &Case, stream: &[u8], cap: usize, one_byte_reads: bool) -> (Vec<u8>, End) {
    let st = st_case(case);
    let mut out = Vec::new();
    // With one-byte reads nothing a reader decoded before an error is lost inside a read call.
    let sizes: &[usize] = if one_byte_reads { &[1] } else { &[65536] };
    let r = guarded(|| match codec::make_reader(&st, stream, 0) {
        Ok(mut rd) => match read_all(&mut rd, sizes, cap, &mut out) {
            ReadEnd::Eof => End::Eof,
            ReadEnd::Err(e) => End::Err(e.kind(), e.to_string()),
            ReadEnd::Overflow => End::Overflow,
            ReadEnd::Spin => End::Spin,
        },
        Err(e) => End::Err(e.kind(), e.to_string()),
    });
    match r {
        Ok(e) => (out, e),
        Err((l, m)) => (out, End::Panic(l, m)),
    }
}

// ---------------------------------------------------------------------------------------------
// the scheduled section
// ---------------------------------------------------------------------------------------------

#[derive(Default, Clone, Debug)]
pub struct Phase {
    pub ran: bool,
    /// (stage, kind, message) of the first failing caller operation
    pub error: Option<(String, std::io::ErrorKind, String)>,
    pub out: Vec<u8>,
    pub ops: u64,
    pub census: (i64, i64, u64, u64),
    pub units_reported: Option<u64>,
    pub io: IoStats,
    pub dropped_early: bool,
    /// results of calls issued after the first error: (returned Ok, bytes)
    pub after_error: Vec<(bool, usize)>,
}

#[derive(Default, Clone, Debug)]
pub struct MtOutcome {
    pub writer: Phase,
    pub reader: Phase,
    pub main_done: bool,
}

enum MtWriter {
    Lzma2(lz::LZMA2WriterMT<SimSink>),
    Lzip(lz::LZIPWriterMT<SimSink>),
}

impl Write for MtWriter {
    fn write(&mut self, buf: &[u8]) -> std::io::Result<usize> {
        match self {
            MtWriter::Lzma2(w) => w.write(buf),
            MtWriter::Lzip(w) => w.write(buf),
        }
    }
    fn flush(&mut self) -> std::io::Result<()> {
        match self {
            MtWriter::Lzma2(w) => w.flush(),
            MtWriter::Lzip(w) => w.flush(),
        }
    }
}

impl MtWriter {
    fn finish(self) -> std::io::Result<()> {
        match self {
            MtWriter::Lzma2(w) => w.finish().map(|_| ()),
            MtWriter::Lzip(w) => w.finish().map(|_| ()),
        }
    }
}

fn err3(stage: &str, e: &std::io::Error) -> (String, std::io::ErrorKind, String) {
    (stage.to_string(), e.kind(), e.to_string())
}

/// Writer phase inside the scheduled section. `drop_at`: drop the writer after that many caller
/// operations (None = run to finish).
fn writer_phase(case: &Case, data: &[u8], drop_at: Option<u64>) -> Phase {
    let mut ph = Phase { ran: true, ..Default::default() };
    lz::verif::census_reset();
    let sink = SimSink::new(&case.sink_policy, &case.sink_faults);
    let (out, stats) = sink.handle();
    let made = if case.fmt == "lzma2mt" {
        lz::LZMA2WriterMT::new(sink, codec::lzma2_options(&case.opt), case.opt.workers).map(MtWriter::Lzma2)
    } else {
        lz::LZIPWriterMT::new(sink, codec::lzip_options(&case.opt), case.opt.workers).map(MtWriter::Lzip)
    };
    let mut w = match made {
        Ok(w) => w,
        Err(e) => {
            ph.error = Some(err3("new", &e));
            return ph;
        }
    };
    let mut off = 0usize;
    let mut ops: Vec<WOp> = case.wops.clone();
    ops.push(WOp::W(usize::MAX));
    let mut failed = false;
    for (i, op) in ops.iter().enumerate() {
        if let Some(d) = drop_at {
            if ph.ops >= d {
                ph.dropped_early = true;
                break;
            }
        }
        let r = match op {
            WOp::W(n) => {
                let n = (*n).min(data.len() - off);
                if n == 0 && i + 1 == ops.len() {
                    continue;
                }
                let r = write_all_retry(&mut w, &data[off..off + n]);
                if r.is_ok() {
                    off += n;
                }
                r
            }
            WOp::F => flush_retry(&mut w),
            WOp::E => w.write(&[]).map(|_| ()),
        };
        ph.ops += 1;
        if let Err(e) = r {
            ph.error = Some(err3(&format!("op{i}"), &e));
            failed = true;
            break;
        }
    }
    if failed && !ph.dropped_early && case.knob("drop_mode") != 2 && case.seed % 2 == 0 {
        // calls after an error must return as well
        let r1 = w.flush();
        ph.after_error.push((r1.is_ok(), 0));
        let r2 = w.finish();
        ph.after_error.push((r2.is_ok(), 0));
        ph.ops += 2;
    } else if ph.dropped_early || failed {
        drop(w);
    } else {
        if let Err(e) = w.finish() {
            ph.error = Some(err3("finish", &e));
        }
    }
    ph.census = lz::verif::census();
    ph.out = out.lock().unwrap().clone();
    ph.io = stats.lock().unwrap().clone();
    ph
}

/// Reader phase inside the scheduled section.
fn reader_phase(case: &Case, stream: &Arc<Vec<u8>>, cap: usize, drop_at: Option<u64>) -> Phase {
    let mut ph = Phase { ran: true, ..Default::default() };
    lz::verif::census_reset();
    let mut src = SimSource::from_arc(stream.clone(), &case.src_policy, &case.src_faults);
    // in-run budget: a reader that keeps calling its source without end is stopped (and
    // reported) long before it can exhaust memory or the watchdog
    src.call_cap = 200_000 + 64 * stream.len() as u64 + 4 * cap as u64 / 1024;
    let stats = src.stats();
    let preset = case.opt.preset.as_ref().map(|p| p.gen());
    let sizes = case.read_sizes();
    let maxsz = sizes.iter().copied().max().unwrap_or(65536).max(1);
    let mut buf = vec![0u8; maxsz];
    enum R {
        L2(lz::LZMA2ReaderMT<SimSource>),
        Lz(lz::LZIPReaderMT<SimSource>),
    }
    let mut rd = if case.fmt == "lzma2mt" {
        R::L2(lz::LZMA2ReaderMT::new(src, case.opt.dict, preset.as_deref(), case.opt.workers))
    } else {
        match lz::LZIPReaderMT::new(src, case.opt.workers) {
            Ok(r) => R::Lz(r),
            Err(e) => {
                ph.error = Some(err3("new", &e));
                ph.census = lz::verif::census();
                ph.io = stats.lock().unwrap().clone();
                return ph;
            }
        }
    };
    let mut i = 0usize;
    let mut intr = 0;
    loop {
        if let Some(d) = drop_at {
            if ph.ops >= d {
                ph.dropped_early = true;
                break;
            }
        }
        let want = sizes[i % sizes.len()].max(1);
        i += 1;
        let r = match &mut rd {
            R::L2(r) => r.read(&mut buf[..want]),
            R::Lz(r) => r.read(&mut buf[..want]),
        };
        ph.ops += 1;
        match r {
            Ok(0) => break,
            Ok(n) => {
                intr = 0;
                ph.out.extend_from_slice(&buf[..n]);
                if ph.out.len() > cap {
                    ph.error = Some(("overflow".into(), std::io::ErrorKind::Other, "VERIF: output cap exceeded".into()));
                    break;
                }
            }
            Err(e) if e.kind() == std::io::ErrorKind::Interrupted && intr < 1000 => intr += 1,
            Err(e) => {
                ph.error = Some(err3("read", &e));
                // every call must return, also the ones a caller makes after an error
                for _ in 0..case.knob_or("reads_after_error", 2) {
                    let r = match &mut rd {
                        R::L2(r) => r.read(&mut buf[..want]),
                        R::Lz(r) => r.read(&mut buf[..want]),
                    };
                    ph.ops += 1;
                    match r {
                        Ok(n) => ph.after_error.push((true, n)),
                        Err(_) => ph.after_error.push((false, 0)),
                    }
                }
                break;
            }
        }
    }
    ph.units_reported = Some(match &rd {
        R::L2(r) => r.chunk_count(),
        R::Lz(r) => r.member_count() as u64,
    });
    drop(rd);
    ph.census = lz::verif::census();
    ph.io = stats.lock().unwrap().clone();
    ph
}

pub struct ShuttleRun {
    pub outcome: MtOutcome,
    pub record: Record,
    pub panic: Option<(String, String)>,
}

fn run_scheduled(case: &Case, max_steps: usize, body: impl Fn(&Arc<Mutex<MtOutcome>>) + Send + Sync + 'static) -> ShuttleRun {
    let shared: Arc<Mutex<MtOutcome>> = Arc::new(Mutex::new(MtOutcome::default()));
    let (sched, rec) = SimScheduler::new(&case.sched, 400);
    let mut cfg = Config::new();
    cfg.stack_size = case.knob_or("stack_kib", 1024) as usize * 1024;
    cfg.max_steps = MaxSteps::FailAfter(max_steps);
    cfg.silence_warnings = true;
    cfg.failure_persistence = shuttle::FailurePersistence::None;
    let s2 = shared.clone();
    let r = guarded(move || {
        let runner = Runner::new(sched, cfg);
        runner.run(move || {
            body(&s2);
            s2.lock().unwrap().main_done = true;
        });
    });
    let outcome = shared.lock().unwrap().clone();
    let record = rec.lock().unwrap().clone();
    ShuttleRun { outcome, record, panic: r.err() }
}

fn step_budget(case: &Case, data_len: usize) -> usize {
    if case.knob("many") > 0 {
        return 400_000 + 400 * case.knob("many") as usize;
    }
    let ops = case.wops.len() + 8 + data_len / case.read_sizes().iter().copied().min().unwrap_or(1).max(1).min(65536);
    30_000 + 600 * ops + 200 * (data_len / 1024)
}

// ---------------------------------------------------------------------------------------------
// execution and oracles
// ---------------------------------------------------------------------------------------------

fn comp(case: &Case, writer: bool) -> &'static str {
    codec::component(&case.fmt, writer)
}

fn max_workers(case: &Case) -> i64 {
    case.opt.workers.clamp(1, 256) as i64
}

fn classify_shuttle_panic(case: &Case, run: &ShuttleRun, writer: bool) -> Option<Violation> {
    let (loc, msg) = run.panic.as_ref()?;
    let mut v = classify_panic(comp(case, writer), loc, msg);
    if v.class == "deadlock" {
        if run.outcome.main_done {
            v.class = "thread-leak".into();
            v.site = "worker blocked forever after drop/finish".into();
        } else {
            v.site = "caller blocked forever".into();
        }
        v.detail = msg.chars().take(200).collect();
    } else if v.class == "livelock" {
        v.site = "step budget".into();
    }
    Some(v)
}

fn census_violation(case: &Case, ph: &Phase, writer: bool) -> Option<Violation> {
    if ph.ran && ph.census.1 > max_workers(case) {
        return Some(Violation::new("worker-bound", comp(case, writer), "max_live", format!("{} worker threads alive at once, requested {} (clamped {})", ph.census.1, case.opt.workers, max_workers(case))));
    }
    None
}

pub fn exec(case: &Case, keep_log: bool) -> RunResult {
    let mut ctx = Ctx::new(keep_log);
    let data = Arc::new(case.input.gen());
    ctx.ev("input_len", data.len() as u64);
    let writer_role = case.knob("role") == 0;
    let v = if writer_role { exec_writer(case, &data, &mut ctx) } else { exec_reader(case, &data, &mut ctx) };
    codec::take_probes(&mut ctx);
    ctx.finish(v)
}

fn record_sched(ctx: &mut Ctx, run: &ShuttleRun) {
    ctx.steps += run.record.steps;
    ctx.sched_hash = Some(run.record.hash);
    ctx.ev("sched_steps", run.record.steps);
    ctx.digest.u64(run.record.hash);
    ctx.metric("preemptions", run.record.preemptions);
    ctx.metric("sched_decisions", run.record.steps);
    ctx.metric("max_runnable", run.record.max_tasks as u64);
}

fn exec_writer(case: &Case, data: &Arc<Vec<u8>>, ctx: &mut Ctx) -> Option<Violation> {
    let scen = case.scen.as_str();
    let drop_at = if scen == "mt.drop" && case.knob("drop_mode") == 0 { Some(case.knob("drop_at") as u64) } else { None };
    let budget = step_budget(case, data.len());
    let c2 = case.clone();
    let d2 = data.clone();
    let second_phase = scen == "mt.equiv" || scen == "mt.sizes";
    let run = run_scheduled(case, budget, move |shared| {
        let ph = writer_phase(&c2, &d2, drop_at);
        let ok = ph.error.is_none() && !ph.dropped_early;
        let sink = Arc::new(ph.out.clone());
        shared.lock().unwrap().writer = ph;
        if second_phase && ok {
            let mut rc = c2.clone();
            rc.src_faults.clear();
            let rp = reader_phase(&rc, &sink, d2.len() + (1 << 20), None);
            shared.lock().unwrap().reader = rp;
        }
    });
    record_sched(ctx, &run);
    let w = &run.outcome.writer;
    ctx.absorb("sink", &w.io);
    ctx.bytes("sink_bytes", &w.out);
    ctx.ev("w_err", w.error.is_some() as u64);
    ctx.nontrivial = data.len() > case.opt.dict as usize || scen != "mt.equiv";
    ctx.metric("units_written", (data.len() as u64).div_ceil(case.opt.unit.unwrap_or(1).max(case.opt.dict as u64)));
    if let Some(v) = classify_shuttle_panic(case, &run, true) {
        return Some(v);
    }
    if let Some(v) = census_violation(case, w, true).or_else(|| census_violation(case, &run.outcome.reader, false)) {
        return Some(v);
    }
    if w.census.2 > 1 {
        ctx.probe("mt_more_than_one_worker", 1);
    }
    let fault_fired = w.io.fired.iter().any(|(k, _)| k.starts_with("write_error") || k == "flush_error" || k == "write_zero");
    if w.io.fired.contains_key("write_error_persistent") && w.after_error.last().map(|x| x.0).unwrap_or(false) {
        return Some(Violation::new("success-after-error", comp(case, true), case.fmt.clone(), "finish() returned Ok after an earlier operation had failed on a permanently failing sink"));
    }
    match scen {
        "mt.drop" => None, // termination, leak and the worker bound are all this scenario judges
        "mt.fault" => {
            if case.knob("bad_options") != 0 {
                if w.error.is_none() {
                    return Some(Violation::new("worker-failure-swallowed", comp(case, true), case.fmt.clone(), format!("options every worker rejects (nice_len {} / preset dictionary {:?}): write, flush and finish all returned Ok with {} bytes in the sink for {} input bytes", case.opt.nice, case.opt.preset.as_ref().map(|p| p.len), w.out.len(), data.len())));
                }
                return None;
            }
            if fault_fired && w.error.is_none() {
                return Some(Violation::new("sink-error-swallowed", comp(case, true), case.fmt.clone(), "the sink failed and every writer operation including finish returned Ok"));
            }
            if !fault_fired {
                if let Some((stage, k, m)) = &w.error {
                    return Some(Violation::new("writer-error", comp(case, true), format!("{stage}:{k:?}"), format!("no fault fired but the writer failed: {m}")));
                }
            }
            None
        }
        _ => {
            if let Some((stage, k, m)) = &w.error {
                return Some(Violation::new("writer-error", comp(case, true), format!("{stage}:{k:?}"), format!("writer failed on a benign sink: {m}")));
            }
            // single-threaded decode of what the MT writer produced
            let (st_out, st_end) = st_decode(case, &w.out, data.len() + (1 << 20), false);
            if !matches!(st_end, End::Eof) || st_out != **data {
                return Some(Violation::new("mt-writer-output-wrong", comp(case, true), "st-decode", format!("single-threaded decode of the MT writer's output: end={st_end:?}, {} bytes, first difference at {}, expected {}", st_out.len(), first_diff(&st_out, data), data.len())));
            }
            if scen == "mt.determ" {
                return determ_oracle(case, data, &w.out, ctx);
            }
            let r = &run.outcome.reader;
            if r.ran {
                if let Some((stage, k, m)) = &r.error {
                    return Some(Violation::new("mt-reader-error", comp(case, false), format!("{stage}:{k:?}"), format!("MT reader failed on the MT writer's output: {m}")));
                }
                if r.out != **data {
                    return Some(Violation::new("mt-reader-output-wrong", comp(case, false), "mt-roundtrip", format!("{} bytes, first difference at {}, expected {}", r.out.len(), first_diff(&r.out, data), data.len())));
                }
            }
            unit_size_oracle(case, data, &w.out)
        }
    }
}

/// C18 (MT part) / C13: every unit except the last holds exactly max(unit, dict) bytes.
fn unit_size_oracle(case: &Case, data: &[u8], sink: &[u8]) -> Option<Violation> {
    // flushes legitimately cut a unit early
    if case.wops.iter().any(|o| matches!(o, WOp::F)) {
        return None;
    }
    let unit = case.opt.unit.unwrap_or(0).max(case.opt.dict as u64) as usize;
    let sizes: Vec<usize> = if case.fmt == "lzma2mt" {
        let (chunks, _) = parsers::lzma2_chunks(sink).ok()?;
        let mut v = Vec::new();
        for (i, c) in chunks.iter().enumerate() {
            if i == 0 || c.dict_reset() {
                v.push(0usize);
            }
            *v.last_mut().unwrap() += c.unpacked;
        }
        v
    } else {
        parsers::lzip_members(sink)?.iter().map(|m| m.data_size as usize).collect()
    };
    if data.is_empty() {
        return None;
    }
    for (i, s) in sizes.iter().enumerate() {
        let last = i + 1 == sizes.len();
        if (!last && *s != unit) || (last && (*s > unit || *s == 0)) {
            return Some(Violation::new("unit-size", comp(case, true), case.fmt.clone(), format!("unit {i} of {} holds {s} bytes, configured unit size {unit}", sizes.len())));
        }
    }
    if sizes.iter().sum::<usize>() != data.len() {
        return Some(Violation::new("unit-size", comp(case, true), "sum", format!("units sum to {} bytes, input has {}", sizes.iter().sum::<usize>(), data.len())));
    }
    None
}

/// C13c: the MT output equals the concatenation of single-threaded encodings of the fixed-size
/// units (so it depends on input, options and unit size only).
fn determ_oracle(case: &Case, data: &[u8], sink: &[u8], ctx: &mut Ctx) -> Option<Violation> {
    if case.wops.iter().any(|o| matches!(o, WOp::F)) {
        return None;
    }
    let mut c = case.clone();
    c.set("stream_kind", if case.fmt == "lzma2mt" { 1 } else { 2 });
    c.opt.preset = None;
    let expect = match build_stream(&c, data) {
        Ok(s) => s,
        Err(_) => return None,
    };
    ctx.bytes("expected", &expect);
    if expect != sink {
        return Some(Violation::new("nondeterministic-output", comp(case, true), case.fmt.clone(), format!("MT output ({} bytes) differs from the concatenation of single-threaded unit encodings ({} bytes) at offset {}", sink.len(), expect.len(), first_diff(sink, &expect))));
    }
    None
}

fn exec_reader(case: &Case, data: &Arc<Vec<u8>>, ctx: &mut Ctx) -> Option<Violation> {
    let scen = case.scen.as_str();
    let mut stream = match guarded(|| build_stream(case, data)) {
        Ok(Ok(s)) => s,
        _ => {
            ctx.metric("skipped_writer_failed", 1);
            return None;
        }
    };
    let orig_stream = stream.clone();
    let mut applied = apply_storage(&mut stream, &case.storage);
    if case.knob("hostile") != 0 || case.knobs.contains_key("trailer_member") {
        let n = stream.len() as u64;
        let scaled: Vec<StFault> = case
            .storage
            .iter()
            .filter(|f| f.name == "permille")
            .map(|f| {
                let mut g = f.clone();
                g.a = f.a * n / 1000;
                if f.kind == "swap" {
                    g.b = f.b * n / 1000;
                }
                g.name.clear();
                g
            })
            .collect();
        applied += simcore::storage::apply(&mut stream, &scaled);
        if case.knob("garbage") != 0 {
            stream = data.to_vec();
            match (case.knob("garbage"), case.fmt.as_str()) {
                (2, "lzipmt") => {
                    stream.splice(0..0, *b"LZIP\x01\x0c");
                    // a plausible trailer so that the member scan finds something
                    let total = stream.len() as u64 + 20;
                    stream.extend_from_slice(&[0u8; 12]);
                    stream.extend_from_slice(&total.to_le_bytes());
                }
                (2, _) => {
                    stream.splice(0..0, [0xE0u8, 0x00, 0x10, 0x00, 0x10, 0x5D]);
                }
                (3, "lzipmt") => {
                    let total = stream.len() as u64;
                    if stream.len() >= 8 {
                        let l = stream.len();
                        stream[l - 8..].copy_from_slice(&total.to_le_bytes());
                    }
                }
                _ => {}
            }
            applied += 1;
        }
        if case.knobs.contains_key("trailer_member") {
            if let Some(members) = parsers::lzip_members(&stream) {
                if !members.is_empty() {
                    let m = &members[(case.knob("trailer_member") as usize) % members.len()];
                    let end = m.start + m.len;
                    let pos = if case.knob("trailer_field") == 0 { end - 8 } else { end - 16 };
                    let old = u64::from_le_bytes(stream[pos..pos + 8].try_into().unwrap());
                    let new = if case.knob("trailer_delta") != 0 { old.wrapping_add(case.knob("trailer_delta") as u64) } else { case.knob("trailer_value") as u64 };
                    if new != old {
                        stream[pos..pos + 8].copy_from_slice(&new.to_le_bytes());
                        applied += 1;
                    }
                }
            }
        }
        if case.knob("many") > 0 {
            let count = case.knob("many") as usize;
            let st = st_case(case);
            let mut c = st.clone();
            c.opt.unit = None;
            let mut out = Vec::new();
            if case.fmt == "lzipmt" {
                let empty = codec::encode_vec(&c, &[]).unwrap_or_default();
                for _ in 0..count {
                    out.extend_from_slice(&empty);
                }
                out.extend_from_slice(&codec::encode_vec(&c, data).unwrap_or_default());
            } else {
                // thousands of independent one-byte units
                for _ in 0..count {
                    out.extend_from_slice(&[1, 0, 0, b'x']);
                }
                out.push(0);
            }
            stream = out;
            applied += 1;
        }
    }
    ctx.fire("storage_fault", applied);
    ctx.bytes("stream", &stream);
    if applied == 0 {
        structure_reach(ctx, if case.fmt == "lzma2mt" { "lzma2" } else { "lzip" }, &stream);
    }
    let cap = data.len() + (1 << 20);
    let faulty_run = applied > 0 || !case.src_faults.is_empty();
    let (st_out, st_end) = st_decode(case, &stream, cap, faulty_run);
    if applied == 0 && (!matches!(st_end, End::Eof) || st_out != **data) {
        // the single-threaded round trip is broken already: C01/C02 report that
        ctx.metric("skipped_roundtrip_broken", 1);
        return None;
    }
    let drop_at = if scen == "mt.drop" && case.knob("drop_mode") == 0 { Some(case.knob("drop_at") as u64) } else { None };
    let budget = step_budget(case, data.len());
    let c2 = case.clone();
    let s2 = Arc::new(stream.clone());
    let run = run_scheduled(case, budget, move |shared| {
        let rp = reader_phase(&c2, &s2, cap, drop_at);
        shared.lock().unwrap().reader = rp;
    });
    record_sched(ctx, &run);
    let r = &run.outcome.reader;
    ctx.absorb("source", &r.io);
    ctx.bytes("out", &r.out);
    ctx.ev("r_err", r.error.is_some() as u64);
    ctx.nontrivial = true;
    if let Some(v) = classify_shuttle_panic(case, &run, false) {
        return Some(v);
    }
    if let Some(v) = census_violation(case, r, false) {
        return Some(v);
    }
    if r.census.2 > 1 {
        ctx.probe("mt_more_than_one_worker", 1);
    }
    if r.io.fired.contains_key("call_cap") {
        return Some(Violation::new("hang", comp(case, false), "source-call-budget", format!("the reader made more than {} read/seek calls on a {} byte input (endless loop over its source)", 200_000 + 64 * stream.len(), stream.len())));
    }
    if let Some((_, n)) = r.after_error.iter().find(|(ok, n)| *ok && *n > 0) {
        return Some(Violation::new("data-after-error", comp(case, false), case.fmt.clone(), format!("after read() had returned an error, a later read() returned Ok({n}): data from behind the failed unit delivered as if nothing had happened")));
    }
    if scen == "mt.drop" || scen == "mt.hostile" {
        // termination, panics, leaks and the worker bound are all these scenarios judge
        return None;
    }
    let src_fault_fired = r.io.fired.iter().any(|(k, _)| k.starts_with("read_error") || k == "seek_error");
    let c = comp(case, false);
    // Who is the authority for the bytes? LZIP members carry a CRC, so after damage the only
    // acceptable successes are the original data (or, by the format's trailing-garbage rule,
    // its first k members). LZMA2 has no integrity check: there the single-threaded reader of
    // the same bytes (read one byte at a time, so nothing decoded before an error is lost) is.
    let lzip = case.fmt == "lzipmt";
    let reference: &[u8] = if lzip { data } else { &st_out };
    if !is_prefix(&r.out, reference) {
        return Some(Violation::new("mt-reader-output-wrong", c, "prefix", format!("byte {} of the MT reader's output differs from {}", first_diff(&r.out, reference), if lzip { "the original data" } else { "what the single-threaded reader returns for the same bytes" })));
    }
    match &r.error {
        None => {
            if src_fault_fired {
                return Some(Violation::new("error-swallowed", c, case.fmt.clone(), "the source failed and the MT reader reported a clean end of stream"));
            }
            if lzip {
                if r.out != **data {
                    // tolerated only as trailing garbage after k >= 1 complete members
                    let ok = applied > 0 && lzip_trailing_garbage_ok(&orig_stream, &stream, r.out.len());
                    if !ok {
                        return Some(Violation::new("mt-data-missing", c, case.fmt.clone(), format!("MT reader reported success with {} of {} bytes", r.out.len(), data.len())));
                    }
                }
            } else {
                if !matches!(st_end, End::Eof) {
                    return Some(Violation::new("mt-error-missing", c, case.fmt.clone(), format!("the single-threaded reader fails on these bytes ({st_end:?}) but the MT reader reported a clean end after {} bytes", r.out.len())));
                }
                if r.out != st_out {
                    return Some(Violation::new("mt-data-missing", c, case.fmt.clone(), format!("MT reader returned {} bytes and a clean end, the single-threaded reader {} bytes", r.out.len(), st_out.len())));
                }
            }
            // C18: counts
            if applied == 0 && !data.is_empty() {
                let units = if case.fmt == "lzma2mt" { parsers::lzma2_chunks(&stream).ok().map(|(c, _)| parsers::lzma2_independent_units(&c) as u64) } else { parsers::lzip_members(&stream).map(|m| m.len() as u64) };
                if let (Some(u), Some(rep)) = (units, r.units_reported) {
                    if u != rep {
                        return Some(Violation::new("unit-count", c, case.fmt.clone(), format!("reader reports {rep} units, the stream has {u} independent units")));
                    }
                }
            }
            None
        }
        Some((stage, k, m)) => {
            if applied == 0 && !src_fault_fired {
                Some(Violation::new("mt-reader-error", c, format!("{stage}:{k:?}"), format!("valid stream, no fault fired, MT reader failed: {m}")))
            } else {
                None
            }
        }
    }
}

/// LZIP's own tolerance: `got` bytes are the first k >= 1 members of the original file and the
/// damaged file does not continue with the member magic where member k+1 would start.
fn lzip_trailing_garbage_ok(orig: &[u8], damaged: &[u8], got: usize) -> bool {
    let Some(members) = parsers::lzip_members(orig) else { return false };
    let mut sum = 0usize;
    for (i, m) in members.iter().enumerate() {
        sum += m.data_size as usize;
        if sum == got {
            // (empty members make several boundaries match the same byte count: any of them will do)
            let next = m.start + m.len;
            // members before `next` must be untouched
            if damaged.len() >= next && damaged[..next] == orig[..next] {
                let tail = &damaged[next..];
                if !(tail.len() >= 4 && &tail[..4] == b"LZIP") {
                    return true;
                }
            }
            let _ = i;
        }
        if sum > got {
            break;
        }
    }
    false
}
