//! `SimScheduler`: our own implementation of shuttle's `Scheduler` trait. Every decision comes
//! from the run's "sched" PRNG sub-stream (or from a recorded decision list), and every decision
//! is recorded, so the schedule is part of the replay file like any other fault.

use shuttle::scheduler::{Schedule, Scheduler, Task, TaskId};
use simcore::case::Sched;
use simcore::rng::{mix, Rng};
use std::collections::HashMap;
use std::sync::{Arc, Mutex};

#[derive(Default, Debug, Clone)]
pub struct Record {
    /// index of the chosen task in the runnable list sorted by task id
    pub decisions: Vec<u32>,
    /// order-sensitive hash of the chosen task ids
    pub hash: u64,
    pub steps: u64,
    pub preemptions: u64,
    pub max_tasks: usize,
}

pub struct SimScheduler {
    mode: u8, // 0 rr, 1 random, 2 pct, 3 replay
    rng: Rng,
    started: bool,
    replay: Vec<u32>,
    prio: HashMap<usize, u64>,
    change_points: Vec<u64>,
    next_low: u64,
    rec: Arc<Mutex<Record>>,
}

impl SimScheduler {
    pub fn new(s: &Sched, est_steps: u64) -> (Self, Arc<Mutex<Record>>) {
        let rec = Arc::new(Mutex::new(Record::default()));
        let mut rng = Rng::new(s.seed);
        let mode = match s.mode.as_str() {
            "random" => 1,
            "pct" => 2,
            "replay" => 3,
            _ => 0,
        };
        let mut change_points = Vec::new();
        if mode == 2 {
            for _ in 0..s.depth.max(1).saturating_sub(1).max(1) {
                change_points.push(rng.below(est_steps.max(1)));
            }
        }
        (SimScheduler { mode, rng, started: false, replay: s.decisions.clone(), prio: HashMap::new(), change_points, next_low: 1000, rec: rec.clone() }, rec)
    }
}

impl Scheduler for SimScheduler {
    fn new_execution(&mut self) -> Option<Schedule> {
        if self.started {
            None
        } else {
            self.started = true;
            Some(Schedule::new(0))
        }
    }

    fn next_task(&mut self, runnable: &[&Task], current: Option<TaskId>, is_yielding: bool) -> Option<TaskId> {
        let mut ids: Vec<usize> = runnable.iter().map(|t| usize::from(t.id())).collect();
        ids.sort();
        let cur = current.map(usize::from);
        let cur_runnable = cur.map(|c| ids.contains(&c)).unwrap_or(false);
        let mut rec = self.rec.lock().unwrap();
        let step = rec.steps;
        let choice_idx: usize = match self.mode {
            1 => self.rng.below(ids.len() as u64) as usize,
            2 => {
                for &id in &ids {
                    if !self.prio.contains_key(&id) {
                        let p = 1_000_000 + self.rng.below(1_000_000);
                        self.prio.insert(id, p);
                    }
                }
                if let Some(c) = cur {
                    if self.change_points.contains(&step) || is_yielding {
                        // lower the running task below everything seen so far
                        self.next_low -= 1;
                        let low = self.next_low;
                        self.prio.insert(c, low);
                    }
                }
                let best = ids.iter().copied().max_by_key(|id| self.prio[id]).unwrap();
                ids.iter().position(|&x| x == best).unwrap()
            }
            3 => {
                let d = self.replay.get(step as usize).copied();
                match d {
                    Some(i) if (i as usize) < ids.len() => i as usize,
                    _ => {
                        // past the recorded list (or not applicable): run-to-completion
                        if cur_runnable && !is_yielding {
                            ids.iter().position(|&x| Some(x) == cur).unwrap()
                        } else {
                            0
                        }
                    }
                }
            }
            _ => {
                if cur_runnable && !is_yielding {
                    ids.iter().position(|&x| Some(x) == cur).unwrap()
                } else if let Some(c) = cur {
                    // next higher id, wrapping (round robin)
                    ids.iter().position(|&x| x > c).unwrap_or(0)
                } else {
                    0
                }
            }
        };
        let chosen = ids[choice_idx];
        if cur_runnable && Some(chosen) != cur {
            rec.preemptions += 1;
        }
        rec.decisions.push(choice_idx as u32);
        rec.hash = mix(rec.hash, chosen as u64 + 1);
        rec.steps += 1;
        rec.max_tasks = rec.max_tasks.max(ids.len());
        Some(TaskId::from(chosen))
    }

    fn next_u64(&mut self) -> u64 {
        self.rng.next_u64()
    }
}
