fn main(){}
