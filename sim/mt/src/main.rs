//! lzsim-mt: the multi-threaded readers and writers under a seeded scheduler. The `lz_mt`
//! instance takes Mutex/Condvar/mpsc/atomics/thread from shuttle (hook H1), `SimScheduler`
//! decides who runs at every synchronisation point.

use lz_mt as lz;
use simcore::case::Case;
use simcore::orch::{Engine, PropMeta};
use simcore::run::RunResult;

#[global_allocator]
static ALLOC: simcore::alloc::SimAlloc = simcore::alloc::SimAlloc;

#[path = "../../scen/codec.rs"]
mod codec;
#[path = "../../scen/common.rs"]
mod common;
mod mtscen;
mod sched;

struct Mt;

fn tier() -> &'static str {
    if std::env::var("VERIF_TIER").map(|t| t == "thorough").unwrap_or(false) {
        "thorough"
    } else {
        "quick"
    }
}

impl Engine for Mt {
    fn name(&self) -> &'static str {
        "lzsim-mt"
    }

    fn properties(&self) -> Vec<&'static str> {
        vec!["C04", "C06", "C08", "C18", "C09", "C10", "C13"]
    }

    fn plan(&self, prop: &str, tier: &str) -> Vec<(String, u64)> {
        let t = tier == "thorough";
        let p = |s: &str, q: u64, th: u64| (s.to_string(), if t { th } else { q });
        match prop {
            "C08" => vec![p("mt.equiv", 12000, 300_000)],
            "C09" => vec![p("mt.fault", 16000, 300_000)],
            "C10" => vec![p("mt.drop", 24000, 400_000)],
            "C04" => vec![p("mt.corrupt", 8000, 100_000)],
            "C06" => vec![p("mt.hostile", 8000, 100_000)],
            "C18" => vec![p("mt.sizes", 6000, 100_000)],
            "C13" => vec![p("mt.determ", 8000, 120_000)],
            _ => vec![],
        }
    }

    fn gen(&self, prop: &str, scen: &str, k: u64, seed: u64) -> Case {
        mtscen::gen(prop, scen, k, seed, tier())
    }

    fn exec(&self, case: &Case, keep_log: bool) -> RunResult {
        mtscen::exec(case, keep_log)
    }

    fn meta(&self, prop: &str) -> PropMeta {
        let real = vec!["all of /repo/src (lz_mt instance: default features, cfg lzma_rust2_verif + lzma_rust2_verif_shuttle): coordinator and worker code of LZMA2ReaderMT, LZMA2WriterMT, LZIPReaderMT, LZIPWriterMT, WorkStealingQueue, set_error; single-threaded readers/writers of the same instance as reference"];
        let stubs = vec!["shuttle's Mutex/Condvar/mpsc/atomics/thread in place of std's (all atomics behave SeqCst)", "SimScheduler (seeded random / PCT / round-robin / replay) in place of the OS scheduler", "SimSource / SimSink in place of the caller's Read+Seek / Write"];
        let common = "one run = one case (format, options, worker count, input of 0..12 units, caller operation history, fault) executed once under one schedule drawn from the run's seed (10% round-robin, 50% uniform random, 40% PCT depth 1-3); ";
        match prop {
            "C08" => PropMeta { level: "exploration", rule: format!("{common}writer role: MT writer -> single-threaded decode and MT decode must give the input and every unit but the last has the configured size; reader role: streams of dependent chunks / independent units / trailing bytes / empty members -> MT reader output equals the single-threaded reader's, unit counts equal the parser's. Non-trivial: more than one unit of input or reader role; distinct = distinct event-log digests (includes the scheduler decision hash)."), assumptions: vec!["weak-memory reorderings are not explored (shuttle treats atomics as SeqCst)".into()], real, stubs, exhaustive_part: None },
            "C09" => PropMeta { level: "exploration", rule: format!("{common}one fault per run: reader role - truncation to 0 bytes, missing terminator/last byte, truncation at a random fraction, bit flip or byte substitution at a random fraction, persistent source error at call j, seek error; writer role - persistent sink error at write call j, flush error, Ok(0) from the sink. Oracle: the run ends (no deadlock = no runnable task while the caller is blocked; no step-budget overrun), the result is Err whenever the single-threaded reader fails on the same bytes or the injected I/O fault fired, never Ok with other or fewer bytes. Non-trivial: every run."), assumptions: vec!["step budget 30000 + 600 per caller operation + 200 per KiB; fault-free runs use a small fraction".into(), "weak-memory reorderings are not explored".into()], real, stubs, exhaustive_part: None },
            "C10" => PropMeta { level: "exploration", rule: format!("{common}the reader or writer is dropped after d caller operations (d = 0..11, 0 = right after new), or after finish / end of stream, or after an injected error. Oracle: drop returns, afterwards every spawned task runs to completion (a task left blocked is reported by the scheduler as a leak), and the census hook never sees more live workers than clamp(requested, 1, 256) (requested in {{0,1,2,3,4,8,300}}). Non-trivial: every run."), assumptions: vec!["a worker blocked forever under the simulated scheduler is a leaked OS thread in the real build".into()], real, stubs, exhaustive_part: None },
            "C06" => PropMeta { level: "exploration", rule: format!("{common}mt.hostile: LZMA2ReaderMT / LZIPReaderMT on garbage (raw, behind a plausible header, with a plausible member-size trailer), on valid streams hit by 1-4 storage faults, and on thousands of empty members / one-byte units, coroutine stack 256 KiB or 1 MiB. Oracle: every read returns (no deadlock, no step overrun), no panic, no stack overflow (worker process death), no leaked worker, worker bound respected. Non-trivial: every run."), assumptions: vec!["stack overflow is detected against the coroutine stack size chosen by the harness, not a platform default".into()], real, stubs, exhaustive_part: None },
            "C04" => PropMeta { level: "exploration", rule: format!("{common}mt.corrupt: LZIPReaderMT on valid 1-12 member files hit by 1-2 storage faults (bit flip, byte substitution, truncation at a random fraction). Oracle as for the single-threaded reader: Err, or exactly the original data (or, by the format's trailing-garbage rule, its first k members when the file no longer continues with the member magic). Non-trivial: every run."), assumptions: vec!["weak-memory reorderings are not explored".into()], real, stubs, exhaustive_part: None },
            "C18" => PropMeta { level: "exploration", rule: format!("{common}mt.sizes (the mt.equiv scenario with incompressible and mixed inputs weighted up): writer role - the sink is parsed with the harness's LZMA2 chunk walker / LZIP member walker: every unit but the last holds exactly max(unit size, dictionary) bytes, units sum to the input; reader role - chunk_count() / member_count() after a complete read equal the number of independent units the parser finds (units that start with an uncompressed chunk included). Non-trivial: more than one unit."), assumptions: vec!["weak-memory reorderings are not explored".into()], real, stubs, exhaustive_part: None },
            "C13" => PropMeta { level: "exploration", rule: format!("{common}mt.determ: writer role only, no flush: the MT writer's output must equal the concatenation of single-threaded encodings of the fixed-size units, whatever the schedule, worker count and write partition."), assumptions: vec!["weak-memory reorderings are not explored".into()], real, stubs, exhaustive_part: None },
            _ => PropMeta { level: "exploration", rule: common.into(), assumptions: vec![], real, stubs, exhaustive_part: None },
        }
    }
}

fn main() {
    simcore::orch::main(&Mt)
}
