//! C06: decoders stay total on untrusted bytes - no panic, abort, hang or blow-up.

use crate::bcj2;
use crate::codec;
use crate::common::*;
use crate::lz;
use crate::optgen;
use simcore::alloc::Scope;
use simcore::case::{biased_len, random_input, random_rbufs, Case, InputSpec, IoPolicy, StFault, Violation};
use simcore::io::{read_all, ReadEnd, SimSource};
use simcore::parsers;
use simcore::rng::Rng;
use simcore::run::{classify_panic, guarded, Ctx, RunResult};
use simcore::storage;
use std::io::Read;

const FORMATS: &[&str] = &["lzma", "lzma", "lzma2", "lzma2", "xz", "xz", "lzip", "lzip", "bcj", "delta", "bcj2"];

pub fn gen(prop: &str, scen: &str, _k: u64, seed: u64, tier: &str) -> Case {
    let rng = Rng::new(seed);
    let mut case = Case { prop: prop.into(), scen: scen.into(), seed, ..Default::default() };
    let big = tier == "thorough";
    let mut r_in = rng.fork("input");
    let mut r_opt = rng.fork("opts");
    let mut r_ops = rng.fork("ops");
    let mut r_f = rng.fork("faults");
    case.rbufs = random_rbufs(&mut r_ops);
    case.set("reads_after_error", 3);
    match scen {
        "hostile.random" => {
            let len = r_in.urange(0, if big { 5000 } else { 1200 });
            optgen::random_format(&mut r_opt, &mut case, FORMATS, len);
            if case.fmt == "bcj2" {
                case.opt = Default::default();
            }
            case.input = InputSpec::new(*r_in.pick(&["random", "random", "lowent", "zero", "mixed"]), len, r_in.next_u64());
            case.input.p1 = 3;
            case.set("shape", r_in.below(4) as i64); // 0 raw, 1 own magic prefix, 2 plausible header prefix, 3 raw
            case.set("declared", *r_in.pick(&[-1i64, 0, 1, 1000, i64::MAX]));
        }
        "hostile.mutated" => {
            let len = biased_len(&mut r_in, if big { 100_000 } else { 20_000 }, &[4096, 65536]);
            optgen::random_format(&mut r_opt, &mut case, &["lzma", "lzma2", "xz", "xz", "lzip"], len);
            case.input = random_input(&mut r_in, len, case.opt.dict);
            let n = r_f.range(1, 4);
            for _ in 0..n {
                // positions are relative (per mille) so that they survive input shrinking
                let mut f = storage::random_fault(&mut r_f, 1000);
                f.name = "permille".into();
                case.storage.push(f);
            }
            case.set("fix_check", r_f.pct(50) as i64);
        }
        "hostile.fields" => {
            let len = biased_len(&mut r_in, 6000, &[4096]);
            optgen::random_format(&mut r_opt, &mut case, &["lzma", "lzma2", "xz", "xz", "lzip"], len);
            if case.fmt == "lzma" {
                case.set("hdr", 1);
                case.set("marker", 1);
                case.set("sized", 0);
                case.opt.preset = None;
            }
            case.input = random_input(&mut r_in, len, case.opt.dict);
            case.set("field", r_f.below(16) as i64);
            let any1 = r_f.below(256) as i64;
            let any2 = 200 + r_f.below(56) as i64;
            case.set("value", *r_f.pick(&[0i64, 1, 2, 0x7F, 0xFF, 40, 41, 224, 225, 226, any1, any1, any2, any2]));
            case.set("value64", *r_f.pick(&[0i64, 1, 1 << 32, 1 << 33, 1 << 40, i64::MAX, -1, 1 << 62]));
        }
        "hostile.grammar" => {
            // headers written from the formats' grammar with every token free: odd VLI encodings,
            // filter lists that end at any token, sizes that lie, CRC right or wrong
            case.fmt = (*r_opt.pick(&["xz", "xz", "xz", "lzip", "lzma"])).into();
            case.opt.dict = 4096;
            case.set("g_seed", (r_f.next_u64() >> 1) as i64);
            case.input = simcore::case::InputSpec::new("random", r_in.urange(0, 300), r_in.next_u64());
        }
        "hostile.params" => {
            let len = biased_len(&mut r_in, 3000, &[100]);
            case.fmt = (*r_opt.pick(&["lzma", "lzma", "lzma2"])).into();
            case.opt = optgen::lzma_opts(&mut r_opt, case.fmt == "lzma2");
            case.input = random_input(&mut r_in, len, case.opt.dict);
            let anyp = r_f.below(256) as i64;
            case.set("p_props", *r_f.pick(&[-1i64, 0, 93, 224, 225, 255, anyp]));
            case.set("p_dict", *r_f.pick(&[-1i64, 0, 1, 4095, 4096, 4097, 0xFFFF_FFF0, 0xFFFF_FFF1, 0xFFFF_FFFF, 1 << 31]));
            case.set("p_size", *r_f.pick(&[-2i64, 0, 1, 1 << 40, i64::MAX, -1]));
            case.set("p_lc", *r_f.pick(&[-1i64, 0, 8, 9, 100]));
            case.set("p_lp", *r_f.pick(&[-1i64, 0, 4, 5]));
            case.set("p_pb", *r_f.pick(&[-1i64, 0, 4, 5]));
            case.set("garbage", r_f.pct(40) as i64);
        }
        _ => {
            // hostile.many: thousands of empty members / streams / chunks
            case.fmt = (*r_opt.pick(&["xz", "lzip", "lzma2"])).into();
            case.opt.dict = 4096;
            case.set("count", *r_in.pick(&[100i64, 1000, 5000, if big { 200_000 } else { 60_000 }]));
            case.set("multi", 1);
            case.input = InputSpec::new("text", r_in.urange(0, 50), r_in.next_u64());
            case.rbufs = vec![65536];
        }
    }
    case
}

pub fn exec(case: &Case, keep_log: bool) -> RunResult {
    let mut ctx = Ctx::new(keep_log);
    let data = case.input.gen();
    ctx.ev("input_len", data.len() as u64);
    let v = match build_input(case, &data, &mut ctx) {
        Some(bytes) => run(case, bytes, &mut ctx),
        None => None,
    };
    codec::take_probes(&mut ctx);
    ctx.finish(v)
}

/// The hostile byte string of this run.
fn build_input(case: &Case, data: &[u8], ctx: &mut Ctx) -> Option<Vec<u8>> {
    match case.scen.as_str() {
        "hostile.random" | "hostile.params" if case.scen == "hostile.random" || case.knob("garbage") != 0 => {
            let mut b = data.to_vec();
            match (case.knob("shape"), case.fmt.as_str()) {
                (1, "xz") | (2, "xz") => {
                    let mut h = vec![0xFDu8, b'7', b'z', b'X', b'Z', 0, 0, 1];
                    let crc = parsers::crc32(&h[6..8]);
                    h.extend_from_slice(&crc.to_le_bytes());
                    if case.knob("shape") == 1 {
                        h.truncate(6);
                    }
                    b.splice(0..0, h);
                }
                (1, "lzip") => {
                    b.splice(0..0, *b"LZIP");
                }
                (2, "lzip") => {
                    b.splice(0..0, *b"LZIP\x01\x0c");
                }
                (2, "lzma") => {
                    let mut h = vec![0x5Du8, 0, 0, 1, 0];
                    h.extend_from_slice(&(case.knob("declared") as u64).to_le_bytes());
                    h.push(0);
                    b.splice(0..0, h);
                }
                (2, "lzma2") => {
                    b.splice(0..0, [0xE0u8, 0xFF, 0xFF, 0x00, 0x40, 0x5D, 0x00]);
                }
                _ => {}
            }
            ctx.fire("random_bytes", 1);
            Some(b)
        }
        "hostile.params" => {
            // a valid stream read with hostile parameters
            let mut c = case.clone();
            c.knobs.clear();
            if c.fmt == "lzma" {
                c.set("marker", 1);
            }
            c.opt.preset = None;
            prepare_stream(&c, data).ok()
        }
        "hostile.mutated" => {
            let mut s = match prepare_stream(case, data) {
                Ok(s) => s,
                Err(_) => {
                    ctx.metric("skipped_writer_failed", 1);
                    return None;
                }
            };
            let n = s.len() as u64;
            let faults: Vec<StFault> = case
                .storage
                .iter()
                .map(|f| {
                    let mut g = f.clone();
                    g.a = f.a * n / 1000;
                    if f.kind == "swap" {
                        g.b = f.b * n / 1000;
                    }
                    g
                })
                .collect();
            let applied = storage::apply(&mut s, &faults);
            for f in &faults {
                ctx.fire(&f.kind, 1);
            }
            if applied == 0 {
                ctx.metric("skipped_noop_fault", 1);
                return None;
            }
            if case.knob("fix_check") != 0 {
                fix_checks(case, &mut s);
                ctx.fire("crc_recomputed", 1);
            }
            Some(s)
        }
        "hostile.grammar" => {
            ctx.fire("grammar_header", 1);
            Some(grammar_input(case, data))
        }
        "hostile.fields" => {
            let mut s = match prepare_stream(case, data) {
                Ok(s) => s,
                Err(_) => {
                    ctx.metric("skipped_writer_failed", 1);
                    return None;
                }
            };
            let name = edit_field(case, &mut s)?;
            ctx.fire(&format!("field:{name}"), 1);
            Some(s)
        }
        _ => {
            let count = case.knob_or("count", 1000) as usize;
            let mut c = case.clone();
            c.knobs.clear();
            let one_empty = prepare_stream(&c, &[]).ok()?;
            let tail = prepare_stream(&c, data).ok()?;
            let mut out = Vec::with_capacity(one_empty.len() * count + tail.len());
            match case.fmt.as_str() {
                "lzma2" => {
                    // thousands of minimal uncompressed chunks (1 byte each), then the terminator
                    out.extend_from_slice(&[1, 0, 0, b'x']);
                    for _ in 1..count {
                        out.extend_from_slice(&[2, 0, 0, b'x']);
                    }
                    out.push(0);
                }
                _ => {
                    for _ in 0..count {
                        out.extend_from_slice(&one_empty);
                    }
                    out.extend_from_slice(&tail);
                }
            }
            ctx.fire("many_empty_units", 1);
            Some(out)
        }
    }
}

/// Recomputes the header CRCs of an XZ file whose structure is still walkable.
fn fix_checks(case: &Case, s: &mut Vec<u8>) {
    if case.fmt != "xz" || s.len() < 32 {
        return;
    }
    parsers::xz_fix_header_crc(s, 0);
    if s[12] != 0 {
        parsers::xz_fix_block_header_crc(s, 12);
    }
    let n = s.len();
    parsers::xz_fix_footer_crc(s, n - 12);
}

fn edit_field(case: &Case, s: &mut Vec<u8>) -> Option<&'static str> {
    let v = case.knob("value") as u8;
    let v64 = case.knob("value64") as u64;
    let f = case.knob("field") as usize;
    match case.fmt.as_str() {
        "lzma" => {
            if s.len() < 13 {
                return None;
            }
            match f % 4 {
                0 => {
                    s[0] = v;
                    Some("lzma_props")
                }
                1 => {
                    s[1..5].copy_from_slice(&(v64 as u32).to_le_bytes());
                    Some("lzma_dict_size")
                }
                2 => {
                    s[5..13].copy_from_slice(&v64.to_le_bytes());
                    Some("lzma_declared_size")
                }
                _ => {
                    s[1..5].copy_from_slice(&0xFFFF_FFFFu32.to_le_bytes());
                    s[5..13].copy_from_slice(&v64.to_le_bytes());
                    Some("lzma_dict_max_and_size")
                }
            }
        }
        "lzma2" => {
            let (chunks, _) = parsers::lzma2_chunks(s).ok()?;
            let c = chunks.first()?;
            match f % 4 {
                0 => {
                    s[c.start] = v;
                    Some("lzma2_control")
                }
                1 => {
                    s[c.start + 1] = 0xFF;
                    s[c.start + 2] = 0xFF;
                    Some("lzma2_unpacked_size")
                }
                2 if c.is_lzma() => {
                    s[c.start + 3] = v;
                    s[c.start + 4] = v;
                    Some("lzma2_packed_size")
                }
                _ if c.props.is_some() => {
                    s[c.start + 5] = v;
                    Some("lzma2_props")
                }
                _ => None,
            }
        }
        "lzip" => {
            let m = parsers::lzip_members(s)?;
            let m0 = m.first()?.clone();
            let end = m0.start + m0.len;
            match f % 5 {
                0 => {
                    s[m0.start + 5] = v;
                    Some("lzip_dict_byte")
                }
                1 => {
                    s[m0.start + 4] = v;
                    Some("lzip_version")
                }
                2 => {
                    s[end - 8..end].copy_from_slice(&v64.to_le_bytes());
                    Some("lzip_member_size")
                }
                3 => {
                    s[end - 16..end - 8].copy_from_slice(&v64.to_le_bytes());
                    Some("lzip_data_size")
                }
                _ => {
                    s[m0.start + 5] = 0x1D; // 512 MiB dictionary declared by a tiny member
                    Some("lzip_dict_512MiB")
                }
            }
        }
        _ => {
            let streams = parsers::xz_file(s).ok()?;
            let st = streams.first()?.clone();
            match f % 8 {
                0 => {
                    // index record count: huge, CRC fixed up
                    let mut idx = vec![0u8];
                    parsers::write_vli(v64 & (u64::MAX >> 1), &mut idx);
                    for b in &st.blocks {
                        parsers::write_vli(b.unpadded_size, &mut idx);
                        parsers::write_vli(b.uncompressed_size, &mut idx);
                    }
                    while idx.len() % 4 != 0 {
                        idx.push(0);
                    }
                    let crc = parsers::crc32(&idx);
                    idx.extend_from_slice(&crc.to_le_bytes());
                    let footer = s[st.footer_start..].to_vec();
                    s.truncate(st.index_start);
                    s.extend_from_slice(&idx);
                    s.extend_from_slice(&footer);
                    Some("xz_index_record_count")
                }
                1 | 2 => {
                    // LZMA2 dictionary property of the first block
                    let b = st.blocks.first()?;
                    let h = &s[b.start..b.start + b.header_len];
                    // the LZMA2 filter is last: id 0x21, size 1, prop
                    let pos = h.windows(2).rposition(|w| w == [0x21, 0x01])?;
                    s[b.start + pos + 2] = if f % 8 == 1 { 40 } else { v };
                    parsers::xz_fix_block_header_crc(s, b.start);
                    Some("xz_lzma2_dict_prop")
                }
                3 => {
                    let b = st.blocks.first()?;
                    s[b.start + 1] = v;
                    parsers::xz_fix_block_header_crc(s, b.start);
                    Some("xz_block_flags")
                }
                4 => {
                    let b = st.blocks.first()?;
                    s[b.start] = v;
                    if v != 0 {
                        parsers::xz_fix_block_header_crc(s, b.start);
                    }
                    Some("xz_block_header_size")
                }
                5 => {
                    s[st.footer_start + 4..st.footer_start + 8].copy_from_slice(&(v64 as u32).to_le_bytes());
                    parsers::xz_fix_footer_crc(s, st.footer_start);
                    Some("xz_backward_size")
                }
                6 => {
                    // an index record with absurd sizes
                    let mut idx = vec![0u8];
                    parsers::write_vli(st.blocks.len() as u64, &mut idx);
                    for _ in &st.blocks {
                        parsers::write_vli(v64 & (u64::MAX >> 1), &mut idx);
                        parsers::write_vli(u64::MAX >> 1, &mut idx);
                    }
                    while idx.len() % 4 != 0 {
                        idx.push(0);
                    }
                    let crc = parsers::crc32(&idx);
                    idx.extend_from_slice(&crc.to_le_bytes());
                    let footer = s[st.footer_start..].to_vec();
                    s.truncate(st.index_start);
                    s.extend_from_slice(&idx);
                    s.extend_from_slice(&footer);
                    Some("xz_index_record_sizes")
                }
                _ => {
                    s[7] = v;
                    parsers::xz_fix_header_crc(s, 0);
                    Some("xz_check_type")
                }
            }
        }
    }
}

/// Dictionary size the input (or the caller) declares, by a tolerant look at the bytes.
fn declared_dict(case: &Case, bytes: &[u8]) -> u64 {
    let p = case.knob_or("p_dict", -1);
    if p >= 0 {
        return (p as u64).max(4096);
    }
    match case.fmt.as_str() {
        "lzma" if case.knob("hdr") != 0 || case.scen == "hostile.random" || case.scen == "hostile.fields" || case.scen == "hostile.grammar" => parsers::lzma_header(bytes).map(|h| (h.dict as u64).max(4096)).unwrap_or(4096),
        "lzip" => {
            // every member may declare its own size; take the largest plausible one
            let mut best = 4096u64;
            let mut i = 0;
            while i + 6 <= bytes.len() {
                if &bytes[i..i + 4] == b"LZIP" {
                    if let Some(d) = parsers::lzip_dict_size(bytes[i + 5]) {
                        best = best.max(d as u64);
                    }
                }
                i += 1;
            }
            best
        }
        "xz" => {
            // any 0x21 0x01 <prop> triple could be an LZMA2 filter declaration
            let mut best = 4096u64;
            if case.scen == "hostile.grammar" {
                // ids and sizes may be encoded non-minimally, so the bytes cannot be scanned: the
                // generator itself says what its block headers declare
                return grammar_input_decl(case, &[]).1.max(4096);
            }
            for w in bytes.windows(3) {
                if w[0] == 0x21 && w[1] == 0x01 && w[2] <= 40 {
                    let d = if w[2] == 40 { 0xFFFF_FFFFu64 } else { ((2 | (w[2] as u64 & 1)) << (w[2] / 2 + 11)) as u64 };
                    best = best.max(d);
                }
            }
            best
        }
        _ => case.opt.dict as u64,
    }
}

fn run(case: &Case, bytes: Vec<u8>, ctx: &mut Ctx) -> Option<Violation> {
    ctx.bytes("hostile", &bytes);
    if let Ok(p) = std::env::var("VERIF_DUMP_HOSTILE") {
        // debugging aid for replays: the hostile byte string itself
        let _ = std::fs::write(p, &bytes);
    }
    ctx.nontrivial = !bytes.is_empty();
    let comp = reader_component(case);
    let len = bytes.len();
    let cap = len.saturating_mul(20_000).saturating_add(16 << 20).min(1 << 30);
    let dict = declared_dict(case, &bytes);
    let sizes = case.read_sizes();
    let max_rbuf = sizes.iter().copied().max().unwrap_or(0);
    let after = case.knob_or("reads_after_error", 3);
    let mut out: Vec<u8> = Vec::new();
    let mut ends: Vec<End> = Vec::new();

    let scope = Scope::begin();
    let r = guarded(|| {
        if case.fmt == "bcj2" {
            // four hostile streams cut from the same bytes
            let q = len / 4;
            let inputs: Vec<SimSource> = (0..4).map(|i| SimSource::plain(bytes[i * q..if i == 3 { len } else { (i + 1) * q }].to_vec())).collect();
            let declared = match case.knob("declared") {
                -1 => len as u64 * 2,
                d => d as u64,
            };
            let mut rd = lz::filter::bcj2::BCJ2Reader::new(inputs, declared);
            drive(&mut rd, &sizes, cap, after, &mut out, &mut ends);
            return;
        }
        let src = SimSource::plain(bytes.clone());
        let made: std::io::Result<Box<dyn Read>> = if case.scen == "hostile.params" {
            hostile_reader(case, src)
        } else {
            let mut c = case.clone();
            if c.fmt == "lzma" && case.scen != "hostile.mutated" {
                c.set("hdr", 1);
            }
            codec::make_reader(&c, src, case.knob("declared").max(0) as usize)
        };
        match made {
            Ok(mut rd) => drive(&mut *rd, &sizes, cap, after, &mut out, &mut ends),
            Err(e) => ends.push(End::Err(e.kind(), e.to_string())),
        }
    });
    let peak = scope.peak();
    let largest = scope.largest();
    ctx.ev("out_len", out.len() as u64);
    ctx.ev("ends", ends.len() as u64);
    ctx.metric("max_peak_bytes_seen", 0);
    if let Err((loc, msg)) = r {
        let mut v = classify_panic(comp, &loc, &msg);
        if !ends.is_empty() && ends.iter().any(|e| e.is_err()) {
            v.detail = format!("on a read after an earlier error: {}", v.detail);
        }
        return Some(v);
    }
    for e in &ends {
        match e {
            End::Overflow => return Some(Violation::new("unbounded-output", comp, "output-cap", format!("{} input bytes produced more than {} bytes", len, cap))),
            End::Spin => return Some(Violation::new("hang", comp, "sticky-interrupted", "reader keeps answering Interrupted")),
            _ => {}
        }
    }
    // allocation: dictionary the input declares + proportional to the input + what was produced
    let budget = dict as usize + 64 * len + 4 * out.len() + (16 << 20) + 2 * max_rbuf + if case.fmt == "bcj2" { 2 << 20 } else { 0 };
    if peak > budget {
        return Some(Violation::new("alloc-budget", comp, fmt_tag(case), format!("peak heap {} bytes (largest single request {}) while reading {} input bytes that declare a {} byte dictionary and yield {} bytes; budget {}", peak, largest, len, dict, out.len(), budget)));
    }
    None
}

/// Reads to the end; after an error issues `after` more reads, each of which must return.
fn drive(rd: &mut dyn Read, sizes: &[usize], cap: usize, after: i64, out: &mut Vec<u8>, ends: &mut Vec<End>) {
    let first = read_all(rd, sizes, cap, out);
    let was_err = matches!(first, ReadEnd::Err(_));
    ends.push(to_end(first));
    if was_err {
        let mut buf = vec![0u8; 4096];
        for i in 0..after {
            let n = if i == 1 { 1 } else { 4096 };
            match rd.read(&mut buf[..n]) {
                Ok(k) => {
                    ends.push(End::Eof);
                    let _ = k;
                }
                Err(e) => ends.push(End::Err(e.kind(), e.to_string())),
            }
        }
    }
}

fn to_end(e: ReadEnd) -> End {
    match e {
        ReadEnd::Eof => End::Eof,
        ReadEnd::Err(e) => End::Err(e.kind(), e.to_string()),
        ReadEnd::Overflow => End::Overflow,
        ReadEnd::Spin => End::Spin,
    }
}

/// Readers constructed with hostile caller-supplied parameters.
fn hostile_reader<'a>(case: &Case, src: SimSource) -> std::io::Result<Box<dyn Read + 'a>> {
    let o = &case.opt;
    let pick = |k: &str, d: i64| -> i64 {
        let v = case.knob_or(k, -1);
        if v == -1 || (k == "p_size" && v == -2) {
            d
        } else {
            v
        }
    };
    let dict = pick("p_dict", o.dict as i64) as u32;
    Ok(if case.fmt == "lzma2" {
        Box::new(lz::LZMA2Reader::new(src, dict, None))
    } else {
        let size = match case.knob_or("p_size", -2) {
            -2 => u64::MAX,
            v => v as u64,
        };
        if case.knob_or("p_props", -1) >= 0 {
            Box::new(lz::LZMAReader::new_with_props(src, size, case.knob("p_props") as u8, dict, None)?)
        } else {
            Box::new(lz::LZMAReader::new(src, size, pick("p_lc", o.lc as i64) as u32, pick("p_lp", o.lp as i64) as u32, pick("p_pb", o.pb as i64) as u32, dict, None)?)
        }
    })
}

#[allow(dead_code)]
fn unused() {
    let _ = bcj2::x86dense;
    let _ = IoPolicy::default();
}

/// A VLI of `v` in `extra` more bytes than necessary (continuation bytes with zero payload).
fn odd_vli(v: u64, extra: usize, out: &mut Vec<u8>) {
    let mut tmp = Vec::new();
    parsers::write_vli(v, &mut tmp);
    if extra > 0 {
        let l = tmp.len();
        tmp[l - 1] |= 0x80;
        for _ in 1..extra {
            tmp.push(0x80);
        }
        tmp.push(0);
    }
    out.extend_from_slice(&tmp);
}

/// Header bytes derived from the grammar of the container formats rather than from a valid file.
fn grammar_input(case: &Case, data: &[u8]) -> Vec<u8> {
    grammar_input_decl(case, data).0
}

/// The bytes and, for XZ, the sum of the dictionary sizes the generated block headers declare
/// (the reader accepts LZMA2 at any position of a filter chain, so one header can declare several).
fn grammar_input_decl(case: &Case, data: &[u8]) -> (Vec<u8>, u64) {
    let mut rng = Rng::new(case.knob("g_seed") as u64);
    let mut out = Vec::new();
    let mut declared: u64 = 0;
    match case.fmt.as_str() {
        "xz" => {
            // stream header (valid, random check type)
            let check = *rng.pick(&[0u8, 1, 4, 10, 2, 15]);
            out.extend_from_slice(&[0xFD, b'7', b'z', b'X', b'Z', 0, 0, check]);
            let crc = parsers::crc32(&out[6..8]);
            out.extend_from_slice(&crc.to_le_bytes());
            let blocks = rng.range(1, 2);
            for _ in 0..blocks {
                // block header content (everything between the size byte and the CRC32)
                let mut c = Vec::new();
                let nf = rng.range(1, 4) as u8;
                let has_c = rng.pct(40);
                let has_u = rng.pct(40);
                let mut flags = (nf - 1) & 3;
                if has_c {
                    flags |= 0x40;
                }
                if has_u {
                    flags |= 0x80;
                }
                if rng.pct(5) {
                    flags |= 0x3C & rng.next_u64() as u8;
                }
                c.push(flags);
                if has_c {
                    let v = *rng.pick(&[0u64, 1, 100, 1 << 20, (1 << 63) - 1]);
                    odd_vli(v, if rng.pct(40) { rng.urange(1, 4) } else { 0 }, &mut c);
                }
                if has_u {
                    let v = *rng.pick(&[0u64, 1, 100, 1 << 20, (1 << 63) - 1]);
                    odd_vli(v, if rng.pct(40) { rng.urange(1, 4) } else { 0 }, &mut c);
                }
                for fi in 0..nf {
                    let last = fi + 1 == nf;
                    let id: u64 = if last && rng.pct(85) { 0x21 } else { *rng.pick(&[0x21u64, 3, 4, 5, 6, 7, 8, 9, 10, 11, 0, 1, 0x4000_0000_0000_0000]) };
                    odd_vli(id, if rng.pct(15) { rng.urange(1, 3) } else { 0 }, &mut c);
                    let natural: u64 = match id {
                        0x21 | 3 => 1,
                        4..=11 => *rng.pick(&[0u64, 4]),
                        _ => rng.range(0, 3),
                    };
                    let psize = if rng.pct(85) { natural } else { *rng.pick(&[0u64, 1, 2, 4, 5, 200, 1 << 40]) };
                    odd_vli(psize, if rng.pct(15) { rng.urange(1, 3) } else { 0 }, &mut c);
                    let have = if rng.pct(90) { psize.min(16) as usize } else { rng.urange(0, 5) };
                    for k in 0..have {
                        let b = if id == 0x21 { *rng.pick(&[0u8, 1, 18, 40, 41, 255]) } else { rng.next_u64() as u8 };
                        if id == 0x21 && k == 0 && b <= 40 {
                            declared = declared.saturating_add(if b == 40 { 0xFFFF_FFFF } else { (2 | (b as u64 & 1)) << (b / 2 + 11) });
                        }
                        c.push(b);
                    }
                }
                // the header ends at an arbitrary token or byte: possible content lengths are 3 mod 4
                let natural = c.len();
                let len = match rng.below(4) {
                    0 => {
                        // cut: the largest valid length not above a random point
                        let k = rng.urange(0, natural);
                        if k >= 3 { k - (k + 1) % 4 } else { 3 }
                    }
                    _ => natural + (3usize.wrapping_sub(natural) % 4 + 4) % 4,
                };
                let mut len = len.max(3);
                if (len + 1) % 4 != 0 {
                    len += 4 - (len + 1) % 4;
                }
                c.resize(len, 0);
                if rng.pct(15) && natural < len {
                    // non-zero header padding
                    c[len - 1] = 1;
                }
                let size_byte = ((len + 1 + 4) / 4 - 1) as u8;
                let start = out.len();
                out.push(if rng.pct(92) { size_byte } else { rng.next_u64() as u8 });
                out.extend_from_slice(&c);
                let crc = parsers::crc32(&out[start..]);
                let crc = if rng.pct(70) { crc } else { crc ^ 1 };
                out.extend_from_slice(&crc.to_le_bytes());
                // some payload: an LZMA2 end marker, random bytes or a valid tiny chunk
                match rng.below(3) {
                    0 => out.push(0),
                    1 => out.extend_from_slice(&data[..data.len().min(40)]),
                    _ => out.extend_from_slice(&[1, 0, 2, b'a', b'b', b'c', 0]),
                }
                while out.len() % 4 != 0 {
                    out.push(0);
                }
                out.extend(std::iter::repeat(0u8).take(parsers::xz_check_len(check)));
            }
            // index with free record count / VLIs, CRC right or wrong, then a footer
            let istart = out.len();
            out.push(0);
            let nrec = if rng.pct(70) { blocks } else { *rng.pick(&[0u64, 1, 3, 1000, 1 << 40, (1 << 63) - 1]) };
            odd_vli(nrec, if rng.pct(20) { rng.urange(1, 8) } else { 0 }, &mut out);
            for _ in 0..nrec.min(3) {
                odd_vli(*rng.pick(&[0u64, 1, 24, 1 << 30, (1 << 63) - 1]), if rng.pct(20) { rng.urange(1, 8) } else { 0 }, &mut out);
                odd_vli(*rng.pick(&[0u64, 3, 1 << 30, (1 << 63) - 1]), if rng.pct(20) { rng.urange(1, 8) } else { 0 }, &mut out);
            }
            while (out.len() - istart) % 4 != 0 {
                out.push(0);
            }
            let crc = parsers::crc32(&out[istart..]);
            out.extend_from_slice(&(if rng.pct(70) { crc } else { !crc }).to_le_bytes());
            let isize = out.len() - istart;
            let mut footer = Vec::new();
            footer.extend_from_slice(&((isize / 4).saturating_sub(1) as u32).to_le_bytes());
            footer.extend_from_slice(&[0, check]);
            let fcrc = parsers::crc32(&footer);
            out.extend_from_slice(&fcrc.to_le_bytes());
            out.extend_from_slice(&footer);
            out.extend_from_slice(b"YZ");
            if rng.pct(30) {
                let cut = rng.urange(12, out.len());
                out.truncate(cut);
            }
        }
        "lzip" => {
            out.extend_from_slice(b"LZIP");
            out.push(*rng.pick(&[1u8, 1, 1, 0, 2, 255]));
            out.push(if rng.pct(70) { *rng.pick(&[12u8, 13, 0x2C, 29, 0xFD]) } else { rng.next_u64() as u8 });
            out.extend_from_slice(&data[..data.len().min(rng.urange(0, 60))]);
            // a trailer with free fields
            out.extend_from_slice(&(rng.next_u64() as u32).to_le_bytes());
            out.extend_from_slice(&(*rng.pick(&[0u64, 1, 1 << 40, u64::MAX])).to_le_bytes());
            let total = out.len() as u64 + 8;
            out.extend_from_slice(&(*rng.pick(&[total, total, 0, 1, total + 1, u64::MAX])).to_le_bytes());
        }
        _ => {
            // .lzma: properties byte, dictionary size, size - all free
            out.push(if rng.pct(60) { *rng.pick(&[0x5Du8, 0, 224, 225, 255]) } else { rng.next_u64() as u8 });
            out.extend_from_slice(&(*rng.pick(&[0u32, 1, 4095, 4096, 1 << 16, 1 << 26, u32::MAX])).to_le_bytes());
            out.extend_from_slice(&(*rng.pick(&[0u64, 1, 100, 1 << 33, u64::MAX - 1, u64::MAX])).to_le_bytes());
            out.extend_from_slice(&data[..data.len().min(rng.urange(0, 80))]);
        }
    }
    (out, declared)
}
