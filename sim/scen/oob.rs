//! C15: unsafe fast paths never access memory outside their buffers. Not a new oracle but a
//! monitor: the workloads that exercise the unsafe blocks (match extension at both ends of the
//! window, window moves, SIMD renormalisation, the assembly direct-bit reader at the end of a
//! chunk buffer) run with hook H5's shadow assertions, which restate each unsafe block's
//! precondition in safe code immediately before it, and - in the thorough tier - again under
//! AddressSanitizer and (encoder paths, no assembly) under Miri.

use crate::codec;
use crate::common::*;
use crate::lz;
use crate::optgen;
use crate::rt::encode_sim;
use simcore::case::{random_input, random_rbufs, random_wops, Case, InputSpec, IoPolicy, Violation};
use simcore::rng::Rng;
use simcore::run::{Ctx, RunResult};
use simcore::storage;

pub fn gen(prop: &str, scen: &str, _k: u64, seed: u64, tier: &str) -> Case {
    let rng = Rng::new(seed);
    let mut case = Case { prop: prop.into(), scen: scen.into(), seed, ..Default::default() };
    let big = tier == "thorough";
    let mut r_in = rng.fork("input");
    let mut r_opt = rng.fork("opts");
    let mut r_ops = rng.fork("ops");
    let mut r_f = rng.fork("faults");
    match scen {
        "oob.window" => {
            // the input fills the encoder's window buffer exactly (or a few 64-byte window moves
            // more) and matches earlier data right up to its last byte, then the stream ends:
            // the one shape in which match extension looks at the very last byte of the
            // allocation. Run by the optimised and by the unoptimised (debug profile) binary.
            optgen::random_format(&mut r_opt, &mut case, &["lzma", "lzma2", "lzma2", "xz", "lzip"], 10000);
            case.opt.dict = *r_opt.pick(&[4096u32, 4096, 4097, 8192]);
            case.opt.preset = None;
            case.opt.unit = None;
            case.opt.filters.clear();
            case.opt.nice = *r_opt.pick(&[8u32, 32, 64, 273]);
            if case.opt.depth > 4 {
                case.opt.depth = 4;
            }
            case.set("len_is_window", 1);
            case.set("len_delta", *r_in.pick(&[0i64, 0, 0, 0, 64, 128, -1, 1]));
            case.input = InputSpec::new(*r_in.pick(&["periodic", "periodic", "zero", "const", "text"]), 1000, r_in.next_u64());
            case.input.p1 = *r_in.pick(&[1u64, 7, 64, 777, 1000]);
            case.wops = if r_ops.pct(60) { vec![] } else { vec![simcore::case::WOp::W(usize::MAX), simcore::case::WOp::F] };
        }
        "oob.stopmove" => {
            // The state a seeded search over inputs does not reach (seeded change S-C15-5): the
            // encoder runs out of input with its one-position look-ahead outstanding, at the
            // position where the window is moved next, reached by literals only (no match
            // overshoots the read limit), with rep0 equal to the dictionary size, for a
            // dictionary size whose window move has no alignment slack. Constructed: the stop
            // position of a full window is keep_size_before + reserve = dict + extra +
            // dict / 2 + 256 KiB; extra is swept so that nothing depends on the constants.
            optgen::random_format(&mut r_opt, &mut case, &["lzma", "lzma", "lzip"], 10000);
            case.opt.dict = *r_opt.pick(&[4096u32, 4096, 8192]) + 128 * r_opt.range(0, 8) as u32 + 124 + r_opt.below(2) as u32;
            case.opt.mode = if r_opt.pct(85) { 0 } else { 1 };
            case.opt.preset = None;
            case.opt.unit = None;
            case.opt.filters.clear();
            case.opt.nice = *r_opt.pick(&[16u32, 32, 32, 64, 273]);
            if case.opt.depth > 4 {
                case.opt.depth = 4;
            }
            let d = case.opt.dict as usize;
            let extra = *r_in.pick(&[0usize, 1, 1, 2, 3, 4, 4096, 4097]);
            let p = d + extra + d / 2 + (256 << 10);
            let total = p + 545 + 3000 + r_in.urange(0, 2000);
            case.input = InputSpec { class: "stop_lookahead".into(), len: total, seed: r_in.next_u64(), p1: d as u64, p2: p as u64 };
            if r_ops.pct(30) {
                let mut left = total;
                while left > 0 {
                    let k = r_ops.urange(1, 90_000).min(left);
                    case.wops.push(simcore::case::WOp::W(k));
                    left -= k;
                }
            }
        }
        "oob.movewin" => {
            // window moves without slack: dictionary sizes that are not multiples of the
            // 64-byte move alignment, data whose matches sit at the largest distance the
            // dictionary allows (period = dictionary size, give or take a byte), short matches
            // (lazy matching compares p with p + 1 all the time), input delivered in pieces so
            // that the encoder runs out of input at many different positions, several window
            // moves per run. The history a match reaches back to must still be in the buffer
            // after every move.
            optgen::random_format(&mut r_opt, &mut case, &["lzma", "lzma", "lzip", "lzma2", "xz"], 10000);
            case.opt.dict = match r_opt.below(4) {
                0 => 4096 + r_opt.range(0, 600) as u32,
                1 => 65536 + r_opt.range(0, 300) as u32,
                // the window buffer is dict * 1.5 + constants and moves are aligned to 64 bytes:
                // for dict = 124 or 125 (mod 128) a move has no slack at all
                2 => *r_opt.pick(&[4096u32, 8192, 65536]) + 128 * r_opt.range(0, 6) as u32 + 124 + r_opt.below(2) as u32,
                _ => 4096 + 4 * r_opt.range(0, 200) as u32,
            };
            if r_opt.pct(70) {
                case.opt.mode = 0;
            }
            case.opt.preset = None;
            case.opt.unit = None;
            case.opt.filters.clear();
            case.opt.nice = *r_opt.pick(&[8u32, 16, 32, 64, 273]);
            if case.opt.depth > 8 {
                case.opt.depth = 8;
            }
            let len = r_in.urange(300_000, if big { 1_400_000 } else { 800_000 });
            case.input = InputSpec::new("mutperiod", len, r_in.next_u64());
            let d = case.opt.dict as u64;
            case.input.p1 = *r_in.pick(&[d, d, d, d - 1, d + 1, d / 2 + 1]);
            case.input.p2 = *r_in.pick(&[6u64, 12, 25, 60]);
            // pieces of all sizes, so that the encoder runs out of input at many positions
            let mut left = len;
            while left > 0 {
                let hi = *r_ops.pick(&[700usize, 9000, 70_000]);
                let k = r_ops.urange(1, hi).min(left);
                case.wops.push(simcore::case::WOp::W(k));
                left -= k;
            }
        }
        "oob.encode" => {
            optgen::random_format(&mut r_opt, &mut case, &["lzma", "lzma2", "lzma2", "xz", "lzip"], 10000);
            case.opt.dict = *r_opt.pick(&[4096u32, 4096, 4097, 8192, 65536]);
            case.opt.preset = None;
            // lengths: tiny tails (< 8 bytes left when finishing), around the dictionary, and
            // long enough for the window to move (buffer ~ dict*1.5 + 256 KiB + extras)
            let len = match r_in.below(6) {
                0 => r_in.urange(0, 24),
                1 => case.opt.dict as usize + r_in.urange(0, 16) - 8,
                2 => r_in.urange(270_000, if big { 900_000 } else { 420_000 }),
                _ => r_in.urange(0, 70_000),
            };
            case.input = random_input(&mut r_in, len, case.opt.dict);
            if r_in.pct(40) {
                // long-distance repeats right at the edges of the dictionary
                case.input.class = "far_repeat".into();
                case.input.p1 = *r_in.pick(&[2u64, 8, 273, 300, 5000]);
                let d = case.opt.dict as u64;
                case.input.p2 = *r_in.pick(&[d - 1, d, d + 1, d - 273, d / 2, 1, 2]);
            }
            case.wops = random_wops(&mut r_ops, len, true, 16);
            if r_f.pct(25) {
                case.set("bias_k", r_in.range(1, len as u64 + 8) as i64);
            }
            if r_in.pct(12) {
                // the input fills the window buffer to its very last byte when it is finished,
                // and the data matches earlier data right up to the end
                case.set("len_is_window", 1);
                case.set("len_delta", *r_in.pick(&[0i64, 0, 0, -1, 1, 64, 128, -8]));
                case.input.class = (*r_in.pick(&["periodic", "const", "zero", "text"])).into();
                case.input.p1 = *r_in.pick(&[1u64, 2, 3, 7, 64, 1000]);
                case.wops = if r_ops.pct(60) { vec![] } else { vec![simcore::case::WOp::W(usize::MAX), simcore::case::WOp::F] };
                case.src_policy = IoPolicy::default();
            }
        }
        "oob.direct_bits" => {
            // the direct-bit reader (hand-written assembly on x86_64/aarch64) at the last bytes
            // of a chunk buffer that ends at an inaccessible page
            case.set("buf_len", *r_in.pick(&[65531i64, 65531, 4096, 4097, 8191, 20000]));
            case.set("fill_seed", (r_in.next_u64() >> 1) as i64);
        }
        "oob.chunkend" => {
            // a valid LZMA2 stream rich in far matches; then the compressed size of one chunk is
            // lowered step by step, so that the chunk buffer ends inside a symbol - sooner or
            // later inside the direct bits of a match distance
            let len = r_in.urange(20_000, if big { 120_000 } else { 50_000 });
            optgen::random_format(&mut r_opt, &mut case, &["lzma2"], len);
            case.opt.dict = *r_opt.pick(&[16384u32, 32768, 65536, 1 << 20]);
            case.opt.preset = None;
            case.opt.unit = None;
            case.input = InputSpec::new(*r_in.pick(&["copies", "far_repeat", "mixed"]), len, r_in.next_u64());
            case.input.p1 = *r_in.pick(&[3u64, 8, 40]);
            case.input.p2 = *r_in.pick(&[200u64, 3000, 9000, 14000]);
            case.set("points", if big { 400 } else { 96 });
            case.set("pick_seed", (r_f.next_u64() >> 1) as i64);
            case.set("only", -1);
        }
        _ => {
            // oob.decode: damage inside compressed payloads, no integrity check in the way
            let len = r_in.urange(1, if big { 200_000 } else { 40_000 });
            optgen::random_format(&mut r_opt, &mut case, &["lzma", "lzma2", "lzma2", "xz"], len);
            case.opt.check = 0;
            case.opt.filters.clear();
            case.opt.preset = None;
            case.input = InputSpec::new(*r_in.pick(&["random", "mixed", "far_repeat", "lowent", "text"]), len, r_in.next_u64());
            case.input.p1 = *r_in.pick(&[4u64, 64, 3000]);
            case.input.p2 = case.opt.dict as u64 / 2;
            case.rbufs = random_rbufs(&mut r_ops);
            for _ in 0..r_f.range(1, 4) {
                let mut f = storage::random_fault(&mut r_f, 1000);
                if r_f.pct(50) {
                    // shorten or lengthen what a chunk header claims: the range decoder then runs
                    // off the end of its buffer inside symbol and direct-bit decoding
                    f.kind = "subst".into();
                }
                f.name = "permille".into();
                case.storage.push(f);
            }
            case.set("reads_after_error", 2);
        }
    }
    case
}

/// Size of the encoder's window buffer for these options (LZEncoder: dictionary + what is kept
/// before and after + reserve). An input of exactly this length, finished right away, is the
/// one shape in which the encoder looks at the very last byte of the allocation.
pub fn window_buffer_size(case: &Case) -> usize {
    let dict = if case.fmt == "lzip" { case.opt.dict.clamp(4096, 512 << 20) } else { case.opt.dict } as usize;
    let fast = case.opt.mode == 0;
    let mut extra_before = if fast { 1 } else { 4096 };
    if case.fmt == "lzma2" || case.fmt == "xz" {
        extra_before = extra_before.max((65536usize).saturating_sub(dict));
    }
    let extra_after = if fast { 272 } else { 4096 };
    let reserve = (dict / 2 + (256 << 10)).min(512 << 20);
    extra_before + dict + extra_after + 273 + reserve
}

pub fn exec(case: &Case, keep_log: bool) -> RunResult {
    let mut ctx = Ctx::new(keep_log);
    let mut spec = case.input.clone();
    if case.knob("len_is_window") != 0 {
        // exactly the window buffer (plus a few 64-byte window moves in some runs)
        spec.len = (window_buffer_size(case) as i64 + case.knob("len_delta")) as usize;
    }
    let data = spec.gen();
    ctx.ev("input_len", data.len() as u64);
    let g0 = simcore::alloc::guarded_allocations();
    let v = match case.scen.as_str() {
        "oob.direct_bits" => direct_bits(case, &mut ctx),
        "oob.chunkend" => chunk_end(case, &data, &mut ctx),
        "oob.decode" => decode_hostile(case, &data, &mut ctx),
        _ => encode(case, &data, &mut ctx),
    };
    simcore::alloc::set_guard(false);
    ctx.metric("guarded_allocations", simcore::alloc::guarded_allocations() - g0);
    let shadow = lz::verif::take_shadow_failures();
    codec::take_probes(&mut ctx);
    ctx.metric("shadow_assert_failures", shadow);
    ctx.finish(v)
}

/// Guard pages: every run (the allocator recycles the mappings, so they cost little).
fn use_guard(_case: &Case) -> bool {
    true
}

fn only_oob(v: Violation) -> Option<Violation> {
    // this property is about memory accesses only; everything else belongs to C01/C06
    if v.class == "oob" {
        Some(v)
    } else {
        None
    }
}

fn encode(case: &Case, data: &[u8], ctx: &mut Ctx) -> Option<Violation> {
    let k = case.knob("bias_k");
    if k > 0 {
        let cyc = if case.fmt == "lzip" { case.opt.dict.clamp(4096, 512 << 20) } else { case.opt.dict } as i64 + 1;
        lz::verif::set_pos_bias((0x7FFF_FFFFi64 - cyc - k) as i32);
        ctx.fire("position_jump", 1);
    }
    // Guard mode: every allocation the library makes from here on (window buffer, hash tables,
    // chains/trees, range coder buffers) ends directly in front of an inaccessible page. The
    // harness's own output buffer is sized beforehand so that it does not grow meanwhile.
    let sink = simcore::io::SimSink::new(&case.sink_policy, &[]).reserve(data.len() + data.len() / 8 + (128 << 10));
    let (out, _) = sink.handle();
    simcore::alloc::set_guard(use_guard(case));
    let r = simcore::run::guarded(|| codec::encode_to(case, data, sink));
    simcore::alloc::set_guard(false);
    lz::verif::set_pos_bias(0);
    let _ = encode_sim;
    ctx.nontrivial = !data.is_empty();
    match r {
        Err((loc, msg)) => only_oob(simcore::run::classify_panic(writer_component(case), &loc, &msg)),
        Ok(Err(_)) => None,
        Ok(Ok(())) => {
            let bytes = out.lock().unwrap().clone();
            ctx.bytes("stream", &bytes);
            let d = guarded_decode(case, bytes, data.len(), data.len() + (1 << 20));
            ctx.ev("end", d.end.tag());
            universal_decode_violation(case, &d).and_then(only_oob)
        }
    }
}

/// `common::decode` with the guard switched on only while the reader and its buffers are
/// built and used; the harness's buffers are allocated before.
fn guarded_decode(case: &Case, stream: Vec<u8>, total: usize, cap: usize) -> Decoded {
    use simcore::io::{read_all, ReadEnd, SimSource};
    let src = SimSource::plain(stream);
    let stats = src.stats();
    let sizes: Vec<usize> = case.read_sizes().into_iter().map(|s| s.min(1 << 16)).collect();
    let mut out: Vec<u8> = Vec::with_capacity(cap.min(total * 4 + (4 << 20)) + (1 << 16));
    simcore::alloc::set_guard(use_guard(case));
    let r = simcore::run::guarded(|| match codec::make_reader(case, src, total) {
        Ok(mut rd) => match read_all(&mut rd, &sizes, out.capacity() - (1 << 16), &mut out) {
            ReadEnd::Eof => End::Eof,
            ReadEnd::Err(e) => End::Err(e.kind(), e.to_string()),
            ReadEnd::Overflow => End::Overflow,
            ReadEnd::Spin => End::Spin,
        },
        Err(e) => End::Err(e.kind(), e.to_string()),
    });
    simcore::alloc::set_guard(false);
    let end = match r {
        Ok(e) => e,
        Err((l, m)) => End::Panic(l, m),
    };
    let st = stats.lock().unwrap().clone();
    let consumed = st.bytes as usize;
    Decoded { out, end, stats: st, consumed }
}

fn decode_hostile(case: &Case, data: &[u8], ctx: &mut Ctx) -> Option<Violation> {
    let mut stream = prepare_stream(case, data).ok()?;
    let n = stream.len() as u64;
    let faults: Vec<_> = case
        .storage
        .iter()
        .map(|f| {
            let mut g = f.clone();
            g.a = f.a * n / 1000;
            if f.kind == "swap" {
                g.b = f.b * n / 1000;
            }
            g
        })
        .collect();
    let applied = storage::apply(&mut stream, &faults);
    ctx.fire("storage_fault", applied);
    ctx.bytes("stream", &stream);
    ctx.nontrivial = applied > 0;
    let d = guarded_decode(case, stream, data.len(), data.len() * 4 + (4 << 20));
    ctx.ev("end", d.end.tag());
    ctx.ev("out", d.out.len() as u64);
    // output beyond the pre-sized buffer is not this check's business
    if matches!(d.end, End::Overflow) {
        return None;
    }
    universal_decode_violation(case, &d).and_then(only_oob)
}

/// The direct-bit reader over a buffer whose end abuts a guard page: every position in the last
/// seven bytes x every bit count x ranges with and without a pending normalisation. A load
/// behind the buffer - also one made by the inline assembly, which no sanitizer instruments -
/// faults and kills the worker (reported as an abort of this case).
fn direct_bits(case: &Case, ctx: &mut Ctx) -> Option<Violation> {
    let len = case.knob_or("buf_len", 65531).max(16) as usize;
    let mut rng = Rng::new(case.knob("fill_seed") as u64);
    let mut buf = vec![0u8; len];
    rng.fill(&mut buf);
    if rng.pct(30) {
        let l = buf.len();
        buf[l - 8..].iter_mut().for_each(|b| *b = 0);
    }
    ctx.nontrivial = true;
    let mut digest = 0u64;
    for tail in 0..=6usize {
        for count in 1..=26u32 {
            let range: u32 = if rng.pct(45) { rng.range(1 << 18, (1 << 24) - 1) as u32 } else { rng.range(1 << 24, u32::MAX as u64) as u32 };
            let code = rng.below(range as u64) as u32;
            simcore::alloc::set_guard(true);
            let r = simcore::run::guarded(|| lz::verif::direct_bits_buffer(range, code, &buf, len - tail, count));
            simcore::alloc::set_guard(false);
            ctx.evals += 1;
            match r {
                Ok((res, r2, c2, p2)) => digest = simcore::rng::mix(digest, simcore::rng::mix(res as u32 as u64, simcore::rng::mix(r2 as u64, simcore::rng::mix(c2 as u64, p2 as u64)))),
                Err((loc, msg)) => {
                    return only_oob(simcore::run::classify_panic("RangeDecoder", &loc, &msg));
                }
            }
        }
    }
    ctx.ev("digest", digest);
    ctx.distinct_sub = 7 * 26;
    None
}

/// Lowers the compressed size of one LZMA chunk of a valid LZMA2 stream to many values and
/// decodes each variant with the chunk buffer in front of a guard page.
fn chunk_end(case: &Case, data: &[u8], ctx: &mut Ctx) -> Option<Violation> {
    let stream = prepare_stream(case, data).ok()?;
    let (chunks, _) = simcore::parsers::lzma2_chunks(&stream).ok()?;
    let cands: Vec<&simcore::parsers::Lzma2Chunk> = chunks.iter().filter(|c| c.is_lzma() && c.packed >= 64).collect();
    if cands.is_empty() {
        ctx.metric("skipped_no_lzma_chunk", 1);
        return None;
    }
    let mut rng = Rng::new(case.knob("pick_seed") as u64);
    let ch = cands[rng.urange(0, cands.len() - 1)];
    let only = case.knob_or("only", -1);
    let n_points = case.knob_or("points", 96) as usize;
    let mut points: Vec<usize> = Vec::new();
    if only >= 0 {
        points.push(only as usize);
    } else {
        // mostly the tail of the chunk (all probabilities adapted), some anywhere
        for _ in 0..n_points {
            let lo = if rng.pct(80) { ch.packed.saturating_sub(3000).max(1) } else { 1 };
            points.push(rng.urange(lo, ch.packed - 1));
        }
        points.sort();
        points.dedup();
    }
    ctx.nontrivial = true;
    let payload = ch.start + ch.header_len;
    let mut distinct = std::collections::HashSet::new();
    for &n in &points {
        ctx.evals += 1;
        let mut s = stream[..payload + n].to_vec();
        // compressed size - 1, big endian, at offset 3 of an LZMA chunk header
        s[ch.start + 3] = (((n - 1) >> 8) & 0xFF) as u8;
        s[ch.start + 4] = ((n - 1) & 0xFF) as u8;
        s.push(0);
        let mut gc = case.clone();
        gc.set("len_is_window", 1); // use_guard(): always
        let d = guarded_decode(&gc, s, data.len(), data.len() + (1 << 20));
        distinct.insert(simcore::rng::mix(n as u64, simcore::rng::mix(d.end.tag(), d.out.len() as u64)));
        if let Some(v) = universal_decode_violation(case, &d).and_then(only_oob) {
            ctx.pin.insert("only".into(), n as i64);
            return Some(v);
        }
    }
    ctx.distinct_sub = distinct.len() as u64;
    ctx.ev("points", points.len() as u64);
    None
}
