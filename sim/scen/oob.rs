//! C15: unsafe fast paths never access memory outside their buffers. Not a new oracle but a
//! monitor: the workloads that exercise the unsafe blocks (match extension at both ends of the
//! window, window moves, SIMD renormalisation, the assembly direct-bit reader at the end of a
//! chunk buffer) run with hook H5's shadow assertions, which restate each unsafe block's
//! precondition in safe code immediately before it, and - in the thorough tier - again under
//! AddressSanitizer and (encoder paths, no assembly) under Miri.

use crate::codec;
use crate::common::*;
use crate::lz;
use crate::optgen;
use crate::rt::encode_sim;
use simcore::case::{random_input, random_rbufs, random_wops, Case, InputSpec, IoPolicy, Violation};
use simcore::rng::Rng;
use simcore::run::{Ctx, RunResult};
use simcore::storage;
use std::sync::Arc;

pub fn gen(prop: &str, scen: &str, _k: u64, seed: u64, tier: &str) -> Case {
    let rng = Rng::new(seed);
    let mut case = Case { prop: prop.into(), scen: scen.into(), seed, ..Default::default() };
    let big = tier == "thorough";
    let mut r_in = rng.fork("input");
    let mut r_opt = rng.fork("opts");
    let mut r_ops = rng.fork("ops");
    let mut r_f = rng.fork("faults");
    match scen {
        "oob.encode" => {
            optgen::random_format(&mut r_opt, &mut case, &["lzma", "lzma2", "lzma2", "xz", "lzip"], 10000);
            case.opt.dict = *r_opt.pick(&[4096u32, 4096, 4097, 8192, 65536]);
            case.opt.preset = None;
            // lengths: tiny tails (< 8 bytes left when finishing), around the dictionary, and
            // long enough for the window to move (buffer ~ dict*1.5 + 256 KiB + extras)
            let len = match r_in.below(6) {
                0 => r_in.urange(0, 24),
                1 => case.opt.dict as usize + r_in.urange(0, 16) - 8,
                2 => r_in.urange(270_000, if big { 900_000 } else { 420_000 }),
                _ => r_in.urange(0, 70_000),
            };
            case.input = random_input(&mut r_in, len, case.opt.dict);
            if r_in.pct(40) {
                // long-distance repeats right at the edges of the dictionary
                case.input.class = "far_repeat".into();
                case.input.p1 = *r_in.pick(&[2u64, 8, 273, 300, 5000]);
                let d = case.opt.dict as u64;
                case.input.p2 = *r_in.pick(&[d - 1, d, d + 1, d - 273, d / 2, 1, 2]);
            }
            case.wops = random_wops(&mut r_ops, len, true, 16);
            if r_f.pct(25) {
                case.set("bias_k", r_in.range(1, len as u64 + 8) as i64);
            }
        }
        _ => {
            // oob.decode: damage inside compressed payloads, no integrity check in the way
            let len = r_in.urange(1, if big { 200_000 } else { 40_000 });
            optgen::random_format(&mut r_opt, &mut case, &["lzma", "lzma2", "lzma2", "xz"], len);
            case.opt.check = 0;
            case.opt.filters.clear();
            case.opt.preset = None;
            case.input = InputSpec::new(*r_in.pick(&["random", "mixed", "far_repeat", "lowent", "text"]), len, r_in.next_u64());
            case.input.p1 = *r_in.pick(&[4u64, 64, 3000]);
            case.input.p2 = case.opt.dict as u64 / 2;
            case.rbufs = random_rbufs(&mut r_ops);
            for _ in 0..r_f.range(1, 4) {
                let mut f = storage::random_fault(&mut r_f, 1000);
                if r_f.pct(50) {
                    // shorten or lengthen what a chunk header claims: the range decoder then runs
                    // off the end of its buffer inside symbol and direct-bit decoding
                    f.kind = "subst".into();
                }
                f.name = "permille".into();
                case.storage.push(f);
            }
            case.set("reads_after_error", 2);
        }
    }
    case
}

pub fn exec(case: &Case, keep_log: bool) -> RunResult {
    let mut ctx = Ctx::new(keep_log);
    let data = case.input.gen();
    ctx.ev("input_len", data.len() as u64);
    let v = if case.scen == "oob.encode" { encode(case, &data, &mut ctx) } else { decode_hostile(case, &data, &mut ctx) };
    let shadow = lz::verif::take_shadow_failures();
    codec::take_probes(&mut ctx);
    ctx.metric("shadow_assert_failures", shadow);
    ctx.finish(v)
}

fn only_oob(v: Violation) -> Option<Violation> {
    // this property is about memory accesses only; everything else belongs to C01/C06
    if v.class == "oob" {
        Some(v)
    } else {
        None
    }
}

fn encode(case: &Case, data: &[u8], ctx: &mut Ctx) -> Option<Violation> {
    let k = case.knob("bias_k");
    if k > 0 {
        let cyc = if case.fmt == "lzip" { case.opt.dict.clamp(4096, 512 << 20) } else { case.opt.dict } as i64 + 1;
        lz::verif::set_pos_bias((0x7FFF_FFFFi64 - cyc - k) as i32);
        ctx.fire("position_jump", 1);
    }
    let r = encode_sim(case, data);
    lz::verif::set_pos_bias(0);
    ctx.nontrivial = !data.is_empty();
    match r {
        Err(v) => only_oob(v),
        Ok(enc) => {
            ctx.bytes("stream", &enc.bytes);
            let d = decode(case, &Arc::new(enc.bytes), &IoPolicy::default(), &[], data.len(), data.len() + (1 << 20), false);
            ctx.ev("end", d.end.tag());
            universal_decode_violation(case, &d).and_then(only_oob)
        }
    }
}

fn decode_hostile(case: &Case, data: &[u8], ctx: &mut Ctx) -> Option<Violation> {
    let mut stream = prepare_stream(case, data).ok()?;
    let n = stream.len() as u64;
    let faults: Vec<_> = case
        .storage
        .iter()
        .map(|f| {
            let mut g = f.clone();
            g.a = f.a * n / 1000;
            if f.kind == "swap" {
                g.b = f.b * n / 1000;
            }
            g
        })
        .collect();
    let applied = storage::apply(&mut stream, &faults);
    ctx.fire("storage_fault", applied);
    ctx.bytes("stream", &stream);
    ctx.nontrivial = applied > 0;
    let d = decode(case, &Arc::new(stream), &IoPolicy::default(), &[], data.len(), data.len() * 4 + (4 << 20), false);
    ctx.ev("end", d.end.tag());
    ctx.ev("out", d.out.len() as u64);
    universal_decode_violation(case, &d).and_then(only_oob)
}
