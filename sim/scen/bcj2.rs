//! C11 (c): BCJ2. The crate only has a decoder and no reference encoder is installed, so the
//! harness carries a small BCJ2 encoder written from the 7-Zip format (Bcj2.c): four streams
//! (main, call, jump, range coder), one adaptive bit per branch candidate. Whether a candidate is
//! converted is free for the encoder - any choice is a correct encoding - so it is drawn from the
//! run's PRNG.

use crate::common::*;
use crate::lz;
use simcore::case::{benign_policy, Case, InputSpec, IoFault, IoPolicy, Violation};
use simcore::io::{read_all, ReadEnd, SimSource};
use simcore::rng::Rng;
use simcore::run::{classify_panic, guarded, Ctx, RunResult};

struct RangeEnc {
    low: u64,
    range: u32,
    cache: u8,
    cache_size: u64,
    out: Vec<u8>,
}

impl RangeEnc {
    fn new() -> Self {
        RangeEnc { low: 0, range: 0xFFFF_FFFF, cache: 0, cache_size: 1, out: Vec::new() }
    }
    fn shift_low(&mut self) {
        if (self.low as u32) < 0xFF00_0000 || (self.low >> 32) != 0 {
            let carry = (self.low >> 32) as u8;
            let mut temp = self.cache;
            loop {
                self.out.push(temp.wrapping_add(carry));
                temp = 0xFF;
                self.cache_size -= 1;
                if self.cache_size == 0 {
                    break;
                }
            }
            self.cache = (self.low >> 24) as u8;
        }
        self.cache_size += 1;
        self.low = (self.low & 0x00FF_FFFF) << 8;
    }
    fn bit(&mut self, prob: &mut u16, bit: bool) {
        let bound = (self.range >> 11) * (*prob as u32);
        if !bit {
            self.range = bound;
            *prob += (2048 - *prob) >> 5;
        } else {
            self.low += bound as u64;
            self.range -= bound;
            *prob -= *prob >> 5;
        }
        while self.range < (1 << 24) {
            self.range <<= 8;
            self.shift_low();
        }
    }
    fn finish(mut self) -> Vec<u8> {
        for _ in 0..5 {
            self.shift_low();
        }
        self.out
    }
}

/// Encodes `x` into [main, call, jump, rc]. `convert_pct` = chance to convert a candidate.
pub fn bcj2_encode(x: &[u8], rng: &mut Rng, convert_pct: u64) -> ([Vec<u8>; 4], u64) {
    let mut main = Vec::with_capacity(x.len());
    let mut call = Vec::new();
    let mut jump = Vec::new();
    let mut rc = RangeEnc::new();
    let mut probs = [1024u16; 258];
    let mut prev: u8 = 0;
    let mut converted = 0u64;
    let mut i = 0usize;
    while i < x.len() {
        let b = x[i];
        main.push(b);
        let cand = (b & 0xFE) == 0xE8 || (prev == 0x0F && (b & 0xF0) == 0x80);
        if cand {
            let can = i + 4 < x.len();
            let conv = can && rng.pct(convert_pct);
            let idx = if b == 0xE8 {
                2 + prev as usize
            } else if b == 0xE9 {
                1
            } else {
                0
            };
            rc.bit(&mut probs[idx], conv);
            if conv {
                let rel = u32::from_le_bytes([x[i + 1], x[i + 2], x[i + 3], x[i + 4]]);
                let ip_after = (i + 5) as u32;
                let abs = rel.wrapping_add(ip_after);
                if b == 0xE8 {
                    call.extend_from_slice(&abs.to_be_bytes());
                } else {
                    jump.extend_from_slice(&abs.to_be_bytes());
                }
                prev = x[i + 4];
                i += 5;
                converted += 1;
                continue;
            }
        }
        prev = b;
        i += 1;
    }
    ([main, call, jump, rc.finish()], converted)
}

pub fn gen(prop: &str, scen: &str, _k: u64, seed: u64, tier: &str) -> Case {
    let rng = Rng::new(seed);
    let mut case = Case { prop: prop.into(), scen: scen.into(), seed, fmt: "bcj2".into(), ..Default::default() };
    let mut r_in = rng.fork("input");
    let mut r_ops = rng.fork("ops");
    let mut r_f = rng.fork("faults");
    let big = tier == "thorough";
    let len = match r_in.below(5) {
        0 => r_in.urange(0, 12),
        1 => (1 << 18) + r_in.urange(0, 64) - 32,
        _ => r_in.urange(0, if big { 900_000 } else { 80_000 }),
    };
    case.input = match r_in.below(3) {
        0 => {
            let mut s = InputSpec::new("code", len, r_in.next_u64());
            s.p1 = 0;
            s.p2 = r_in.next_u64() >> 20;
            s
        }
        1 => InputSpec { class: "x86dense".into(), len, seed: r_in.next_u64(), p1: r_in.range(2, 30), p2: 0 },
        _ => InputSpec::new("random", len, r_in.next_u64()),
    };
    case.set("convert_pct", *r_in.pick(&[0i64, 30, 70, 100]));
    case.set("enc_seed", (r_in.next_u64() >> 1) as i64);
    case.rbufs = simcore::case::random_rbufs(&mut r_ops);
    if scen == "bcj2.io" {
        // C05: 0 = benign short/Interrupted reads, 1 = persistent error at a call of one of the
        // four sources, 2 = one of the four streams ends early
        case.set("mode", *r_f.pick(&[0i64, 0, 0, 1, 2]));
        case.set("fs", r_f.below(4) as i64);
        case.set("errkind", r_f.range(1, 5) as i64);
        case.set("pick_seed", (r_f.next_u64() >> 1) as i64);
        case.set("only", -1);
        if case.input.len > 40_000 {
            case.input.len = 40_000 + case.input.len % 9000;
        }
    }
    if scen == "bcj2.history" {
        // C07: the same four streams under several destination-size histories
        case.set("h_seed", (r_ops.next_u64() >> 1) as i64);
        case.set("histories", if big { 12 } else { 6 });
        case.set("only", -1);
        if case.input.len > 30_000 {
            case.input.len = 30_000 + case.input.len % 5000;
        }
    }
    // four independent short-read schedules
    for i in 0..4 {
        let p = if r_f.pct(60) { benign_policy(&mut r_f) } else { IoPolicy::default() };
        case.set(&format!("p{i}_seed"), (p.seed >> 1) as i64);
        case.set(&format!("p{i}_short"), p.short_pct as i64);
        case.set(&format!("p{i}_chunk"), p.max_chunk as i64);
        case.set(&format!("p{i}_intr"), p.intr_pct as i64);
    }
    case
}

pub fn x86dense(len: usize, seed: u64, density: u64) -> Vec<u8> {
    let mut rng = Rng::new(seed ^ 0x86);
    let mut out = vec![0u8; len];
    rng.fill(&mut out);
    let step = density.max(1) as usize;
    let mut i = rng.urange(0, step);
    while i + 8 <= len {
        match rng.below(4) {
            0 => out[i] = 0xE8,
            1 => out[i] = 0xE9,
            2 => {
                out[i] = 0x0F;
                out[i + 1] = 0x80 | (out[i + 1] & 0x0F);
            }
            _ => {
                out[i] = 0x0F;
                out[i + 1] = 0xE8;
            }
        }
        i += rng.urange(1, 2 * step);
    }
    out
}

fn policy(case: &Case, i: usize) -> IoPolicy {
    IoPolicy { seed: case.knob(&format!("p{i}_seed")) as u64, short_pct: case.knob(&format!("p{i}_short")) as u8, max_chunk: case.knob(&format!("p{i}_chunk")) as u32, intr_pct: case.knob(&format!("p{i}_intr")) as u8 }
}

pub fn exec(case: &Case, keep_log: bool) -> RunResult {
    let mut ctx = Ctx::new(keep_log);
    let data = if case.input.class == "x86dense" { x86dense(case.input.len, case.input.seed, case.input.p1) } else { case.input.gen() };
    ctx.ev("input_len", data.len() as u64);
    let mut erng = Rng::new(case.knob("enc_seed") as u64);
    let (streams, converted) = bcj2_encode(&data, &mut erng, case.knob("convert_pct") as u64);
    ctx.metric("bcj2_converted", converted);
    ctx.nontrivial = converted > 0;
    for s in &streams {
        ctx.bytes("stream", s);
    }
    let v = match case.scen.as_str() {
        "bcj2.io" => io_scen(case, &data, &streams, &mut ctx),
        "bcj2.history" => history_scen(case, &data, &streams, &mut ctx),
        _ => run_reader(case, &data, streams, &mut ctx),
    };
    ctx.finish(v)
}

struct Run4 {
    out: Vec<u8>,
    end: Result<ReadEnd, (String, String)>,
    stats: Vec<simcore::io::IoStats>,
}

/// One read of the four streams to the end: per-stream policies and explicit faults.
fn decode4(streams: &[Vec<u8>; 4], pols: &[IoPolicy; 4], faults: &[Vec<IoFault>; 4], sizes: &[usize], total: usize) -> Run4 {
    let mut stats = Vec::new();
    let mut inputs = Vec::new();
    for i in 0..4 {
        let src = SimSource::new(streams[i].clone(), &pols[i], &faults[i]);
        stats.push(src.stats());
        inputs.push(src);
    }
    let mut out = Vec::new();
    let end = guarded(|| {
        let mut rd = lz::filter::bcj2::BCJ2Reader::new(inputs, total as u64);
        read_all(&mut rd, sizes, total + (1 << 20), &mut out)
    });
    let stats = stats.iter().map(|s| s.lock().unwrap().clone()).collect();
    Run4 { out, end, stats }
}

const STREAM_NAMES: [&str; 4] = ["main", "call", "jump", "rc"];

fn points(calls: usize, max: usize, seed: u64) -> Vec<usize> {
    if calls <= max {
        return (0..calls).collect();
    }
    let mut rng = Rng::new(seed);
    let mut v: Vec<usize> = (0..max / 3).collect();
    v.extend((calls - max / 3)..calls);
    while v.len() < max {
        v.push(rng.urange(0, calls - 1));
    }
    v.sort_unstable();
    v.dedup();
    v
}

/// C05 on the four-source reader: benign short / Interrupted reads change nothing; a persistent
/// error from a call the reader makes is returned with its kind; a stream that ends early never
/// gives a clean end with bytes missing or wrong.
fn io_scen(case: &Case, data: &[u8], streams: &[Vec<u8>; 4], ctx: &mut Ctx) -> Option<Violation> {
    let comp = "BCJ2Reader";
    let sizes = case.read_sizes();
    let total = data.len();
    let pols = [policy(case, 0), policy(case, 1), policy(case, 2), policy(case, 3)];
    let none: [Vec<IoFault>; 4] = Default::default();
    let plain: [IoPolicy; 4] = Default::default();
    // the fault-free read must be right, otherwise C11 reports it
    let clean = decode4(streams, &plain, &none, &[65536], total);
    if !matches!(clean.end, Ok(ReadEnd::Eof)) || clean.out != data {
        ctx.metric("skipped_roundtrip_broken", 1);
        return None;
    }
    let dry = decode4(streams, &pols, &none, &sizes, total);
    for (i, s) in dry.stats.iter().enumerate() {
        ctx.absorb(STREAM_NAMES[i], s);
    }
    ctx.bytes("out", &dry.out);
    let benign = match &dry.end {
        Err((loc, msg)) => Some(classify_panic(comp, loc, msg)),
        Ok(ReadEnd::Eof) if dry.out == data => None,
        Ok(ReadEnd::Eof) => Some(Violation::new("benign-fault-changes-bytes", comp, "bcj2", format!("short / interrupted reads on the four sources: decoded {} bytes, expected {}, first difference at {}", dry.out.len(), total, first_diff(&dry.out, data)))),
        Ok(ReadEnd::Err(e)) => Some(Violation::new("benign-fault-error", comp, format!("bcj2:{:?}", e.kind()), format!("short / interrupted reads on the four sources made the reader fail after {} of {} bytes: {e}", dry.out.len(), total))),
        Ok(ReadEnd::Overflow) => Some(Violation::new("unbounded-output", comp, "output-cap", "more output than declared")),
        Ok(ReadEnd::Spin) => Some(Violation::new("hang", comp, "sticky-interrupted", "reader keeps answering Interrupted")),
    };
    if benign.is_some() {
        return benign;
    }
    let mode = case.knob("mode");
    ctx.nontrivial = total > 0 && (mode != 0 || dry.stats.iter().any(|s| s.fired.values().sum::<u64>() > 0));
    if mode == 0 {
        return None;
    }
    // the stream that gets the fault: the drawn one if the reader uses it at all
    let mut fs = case.knob("fs") as usize % 4;
    if dry.stats[fs].bytes == 0 {
        fs = 0;
    }
    let only = case.knob_or("only", -1);
    let kind_code = case.knob("errkind") as u64;
    let kind = simcore::io::errkind(kind_code);
    let mut distinct = std::collections::HashSet::new();
    if mode == 1 {
        let calls = dry.stats[fs].calls as usize;
        let pts = if only >= 0 { vec![only as usize] } else { points(calls, 24, case.knob("pick_seed") as u64) };
        for j in pts {
            ctx.evals += 1;
            let mut faults: [Vec<IoFault>; 4] = Default::default();
            faults[fs].push(IoFault { at: j as u64, kind: "err_p".into(), arg: kind_code });
            let r = decode4(streams, &pols, &faults, &sizes, total);
            ctx.steps += r.stats.iter().map(|s| s.calls).sum::<u64>();
            let fired = r.stats[fs].fired.contains_key("read_error_persistent");
            ctx.fire("read_error_persistent", fired as u64);
            let tag = match &r.end { Ok(ReadEnd::Eof) => 1, Ok(ReadEnd::Err(_)) => 2, Ok(_) => 3, Err(_) => 4 };
            distinct.insert(simcore::rng::mix(j as u64, simcore::rng::mix(tag, r.out.len() as u64)));
            let v = match &r.end {
                Err((loc, msg)) => Some(classify_panic(comp, loc, msg)),
                _ if !is_prefix(&r.out, data) => Some(Violation::new("wrong-bytes", comp, "read-error", format!("error at call {j} of the {} source: byte {} differs from the original", STREAM_NAMES[fs], first_diff(&r.out, data)))),
                _ if !fired => None,
                Ok(ReadEnd::Err(e)) if e.kind() != kind => Some(Violation::new("error-kind-lost", comp, "bcj2", format!("the {} source failed with {kind:?} at call {j}, reader reported {:?} ({e})", STREAM_NAMES[fs], e.kind()))),
                Ok(ReadEnd::Err(_)) => None,
                Ok(ReadEnd::Eof) => Some(Violation::new("error-swallowed", comp, "bcj2", format!("the {} source failed with {kind:?} at call {j} of {calls}, reader reported a clean end of stream after {} of {} bytes", STREAM_NAMES[fs], r.out.len(), total))),
                Ok(ReadEnd::Overflow) => Some(Violation::new("unbounded-output", comp, "output-cap", "more output than declared")),
                Ok(ReadEnd::Spin) => Some(Violation::new("hang", comp, "sticky-interrupted", "reader keeps answering Interrupted")),
            };
            if let Some(v) = v {
                ctx.pin.insert("only".into(), j as i64);
                return Some(v);
            }
        }
    } else {
        // every cut inside the bytes the reader pulled from that stream in the fault-free run
        let used = (dry.stats[fs].bytes as usize).min(streams[fs].len());
        let pts = if only >= 0 { vec![only as usize] } else { points(used, 48, case.knob("pick_seed") as u64) };
        for t in pts {
            ctx.evals += 1;
            let mut cut = streams.clone();
            cut[fs].truncate(t);
            let r = decode4(&cut, &pols, &none, &sizes, total);
            ctx.steps += r.stats.iter().map(|s| s.calls).sum::<u64>();
            ctx.fire("stream_truncated", 1);
            let tag = match &r.end { Ok(ReadEnd::Eof) => 1, Ok(ReadEnd::Err(_)) => 2, Ok(_) => 3, Err(_) => 4 };
            distinct.insert(simcore::rng::mix(t as u64, simcore::rng::mix(tag, r.out.len() as u64)));
            let v = match &r.end {
                Err((loc, msg)) => Some(classify_panic(comp, loc, msg)),
                _ if !is_prefix(&r.out, data) => Some(Violation::new("wrong-bytes", comp, "truncation", format!("{} source cut at {t} of {}: byte {} differs from the original", STREAM_NAMES[fs], streams[fs].len(), first_diff(&r.out, data)))),
                // a cut behind the last byte the decoder needs is no truncation of the stream
                Ok(ReadEnd::Eof) if r.out.len() < total => Some(Violation::new("truncation-accepted", comp, "bcj2", format!("{} source cut at {t} of {}: clean end of stream after {} of {} bytes", STREAM_NAMES[fs], streams[fs].len(), r.out.len(), total))),
                Ok(ReadEnd::Overflow) => Some(Violation::new("unbounded-output", comp, "output-cap", "more output than declared")),
                Ok(ReadEnd::Spin) => Some(Violation::new("hang", comp, "sticky-interrupted", "reader keeps answering Interrupted")),
                _ => None,
            };
            if let Some(v) = v {
                ctx.pin.insert("only".into(), t as i64);
                return Some(v);
            }
        }
    }
    ctx.distinct_sub = distinct.len() as u64;
    None
}

/// C07 on the four-source reader: the bytes are the same for every sequence of destination
/// sizes, zero-length reads included.
fn history_scen(case: &Case, data: &[u8], streams: &[Vec<u8>; 4], ctx: &mut Ctx) -> Option<Violation> {
    let comp = "BCJ2Reader";
    let total = data.len();
    let none: [Vec<IoFault>; 4] = Default::default();
    let plain: [IoPolicy; 4] = Default::default();
    let one = decode4(streams, &plain, &none, &[total.max(1) + 7], total);
    if !matches!(one.end, Ok(ReadEnd::Eof)) || one.out != data {
        // the one-shot read is wrong: C11 reports that
        ctx.metric("skipped_roundtrip_broken", 1);
        return None;
    }
    let mut rng = Rng::new(case.knob("h_seed") as u64);
    let n = case.knob_or("histories", 6) as usize;
    let only = case.knob_or("only", -1);
    for i in 0..n {
        let rb: Vec<usize> = match i {
            0 => vec![1],
            1 => vec![0, 1, 0, 7],
            2 => vec![3, 0, 4097, 0, 0, 2],
            3 => vec![5, 4, 6],
            _ => {
                let k = rng.urange(1, 8);
                (0..k).map(|_| *rng.pick(&[0usize, 0, 1, 2, 3, 4, 5, 6, 7, 13, 100, 4095, 4096, 4097, 65536, 1 << 20])).collect()
            }
        };
        if rb.iter().all(|&x| x == 0) || (only >= 0 && only != i as i64) {
            continue;
        }
        ctx.evals += 1;
        let r = decode4(streams, &plain, &none, &rb, total);
        ctx.steps += r.stats.iter().map(|s| s.calls).sum::<u64>();
        let v = match &r.end {
            Err((loc, msg)) => Some(classify_panic(comp, loc, msg)),
            Ok(ReadEnd::Eof) if r.out == data => None,
            Ok(ReadEnd::Eof) => Some(Violation::new("read-history-changes-bytes", comp, "bytes", format!("buffer sizes {rb:?}: {} bytes, expected {}, first difference at {}", r.out.len(), total, first_diff(&r.out, data)))),
            Ok(ReadEnd::Err(e)) => Some(Violation::new("read-history-error", comp, format!("{:?}:{e}", e.kind()), format!("buffer sizes {rb:?}: reader fails after {} of {} bytes: {e}", r.out.len(), total))),
            Ok(ReadEnd::Overflow) => Some(Violation::new("unbounded-output", comp, "output-cap", "more output than declared")),
            Ok(ReadEnd::Spin) => Some(Violation::new("hang", comp, "sticky-interrupted", "reader keeps answering Interrupted")),
        };
        if let Some(v) = v {
            ctx.pin.insert("only".into(), i as i64);
            return Some(v);
        }
    }
    ctx.distinct_sub = ctx.evals;
    None
}

fn run_reader(case: &Case, data: &[u8], streams: [Vec<u8>; 4], ctx: &mut Ctx) -> Option<Violation> {
    let comp = "BCJ2Reader";
    let mut stats = Vec::new();
    let mut inputs = Vec::new();
    for (i, s) in streams.into_iter().enumerate() {
        let src = SimSource::new(s, &policy(case, i), &[]);
        stats.push(src.stats());
        inputs.push(src);
    }
    let sizes = case.read_sizes();
    let mut out = Vec::new();
    let total = data.len();
    let r = guarded(|| {
        let mut rd = lz::filter::bcj2::BCJ2Reader::new(inputs, total as u64);
        read_all(&mut rd, &sizes, total + (1 << 20), &mut out)
    });
    for (i, s) in stats.iter().enumerate() {
        ctx.absorb(["main", "call", "jump", "rc"][i], &s.lock().unwrap());
    }
    ctx.bytes("out", &out);
    match r {
        Err((loc, msg)) => Some(classify_panic(comp, &loc, &msg)),
        Ok(ReadEnd::Eof) if out == data => None,
        Ok(ReadEnd::Eof) => Some(Violation::new("bcj2-mismatch", comp, "bytes", format!("decoded {} bytes, expected {}, first difference at {}", out.len(), data.len(), first_diff(&out, data)))),
        Ok(ReadEnd::Err(e)) => Some(Violation::new("bcj2-rejected", comp, format!("{:?}:{e}", e.kind()), format!("a correctly encoded four-stream input fails after {} of {} bytes: {e}", out.len(), data.len()))),
        Ok(ReadEnd::Overflow) => Some(Violation::new("unbounded-output", comp, "output-cap", "more output than declared")),
        Ok(ReadEnd::Spin) => Some(Violation::new("hang", comp, "sticky-interrupted", "reader keeps answering Interrupted")),
    }
}
