//! C11 (c): BCJ2. The crate only has a decoder and no reference encoder is installed, so the
//! harness carries a small BCJ2 encoder written from the 7-Zip format (Bcj2.c): four streams
//! (main, call, jump, range coder), one adaptive bit per branch candidate. Whether a candidate is
//! converted is free for the encoder - any choice is a correct encoding - so it is drawn from the
//! run's PRNG.

use crate::common::*;
use crate::lz;
use simcore::case::{benign_policy, Case, InputSpec, IoPolicy, Violation};
use simcore::io::{read_all, ReadEnd, SimSource};
use simcore::rng::Rng;
use simcore::run::{classify_panic, guarded, Ctx, RunResult};

struct RangeEnc {
    low: u64,
    range: u32,
    cache: u8,
    cache_size: u64,
    out: Vec<u8>,
}

impl RangeEnc {
    fn new() -> Self {
        RangeEnc { low: 0, range: 0xFFFF_FFFF, cache: 0, cache_size: 1, out: Vec::new() }
    }
    fn shift_low(&mut self) {
        if (self.low as u32) < 0xFF00_0000 || (self.low >> 32) != 0 {
            let carry = (self.low >> 32) as u8;
            let mut temp = self.cache;
            loop {
                self.out.push(temp.wrapping_add(carry));
                temp = 0xFF;
                self.cache_size -= 1;
                if self.cache_size == 0 {
                    break;
                }
            }
            self.cache = (self.low >> 24) as u8;
        }
        self.cache_size += 1;
        self.low = (self.low & 0x00FF_FFFF) << 8;
    }
    fn bit(&mut self, prob: &mut u16, bit: bool) {
        let bound = (self.range >> 11) * (*prob as u32);
        if !bit {
            self.range = bound;
            *prob += (2048 - *prob) >> 5;
        } else {
            self.low += bound as u64;
            self.range -= bound;
            *prob -= *prob >> 5;
        }
        while self.range < (1 << 24) {
            self.range <<= 8;
            self.shift_low();
        }
    }
    fn finish(mut self) -> Vec<u8> {
        for _ in 0..5 {
            self.shift_low();
        }
        self.out
    }
}

/// Encodes `x` into [main, call, jump, rc]. `convert_pct` = chance to convert a candidate.
pub fn bcj2_encode(x: &[u8], rng: &mut Rng, convert_pct: u64) -> ([Vec<u8>; 4], u64) {
    let mut main = Vec::with_capacity(x.len());
    let mut call = Vec::new();
    let mut jump = Vec::new();
    let mut rc = RangeEnc::new();
    let mut probs = [1024u16; 258];
    let mut prev: u8 = 0;
    let mut converted = 0u64;
    let mut i = 0usize;
    while i < x.len() {
        let b = x[i];
        main.push(b);
        let cand = (b & 0xFE) == 0xE8 || (prev == 0x0F && (b & 0xF0) == 0x80);
        if cand {
            let can = i + 4 < x.len();
            let conv = can && rng.pct(convert_pct);
            let idx = if b == 0xE8 {
                2 + prev as usize
            } else if b == 0xE9 {
                1
            } else {
                0
            };
            rc.bit(&mut probs[idx], conv);
            if conv {
                let rel = u32::from_le_bytes([x[i + 1], x[i + 2], x[i + 3], x[i + 4]]);
                let ip_after = (i + 5) as u32;
                let abs = rel.wrapping_add(ip_after);
                if b == 0xE8 {
                    call.extend_from_slice(&abs.to_be_bytes());
                } else {
                    jump.extend_from_slice(&abs.to_be_bytes());
                }
                prev = x[i + 4];
                i += 5;
                converted += 1;
                continue;
            }
        }
        prev = b;
        i += 1;
    }
    ([main, call, jump, rc.finish()], converted)
}

pub fn gen(prop: &str, scen: &str, _k: u64, seed: u64, tier: &str) -> Case {
    let rng = Rng::new(seed);
    let mut case = Case { prop: prop.into(), scen: scen.into(), seed, fmt: "bcj2".into(), ..Default::default() };
    let mut r_in = rng.fork("input");
    let mut r_ops = rng.fork("ops");
    let mut r_f = rng.fork("faults");
    let big = tier == "thorough";
    let len = match r_in.below(5) {
        0 => r_in.urange(0, 12),
        1 => (1 << 18) + r_in.urange(0, 64) - 32,
        _ => r_in.urange(0, if big { 900_000 } else { 80_000 }),
    };
    case.input = match r_in.below(3) {
        0 => {
            let mut s = InputSpec::new("code", len, r_in.next_u64());
            s.p1 = 0;
            s.p2 = r_in.next_u64() >> 20;
            s
        }
        1 => InputSpec { class: "x86dense".into(), len, seed: r_in.next_u64(), p1: r_in.range(2, 30), p2: 0 },
        _ => InputSpec::new("random", len, r_in.next_u64()),
    };
    case.set("convert_pct", *r_in.pick(&[0i64, 30, 70, 100]));
    case.set("enc_seed", (r_in.next_u64() >> 1) as i64);
    case.rbufs = simcore::case::random_rbufs(&mut r_ops);
    // four independent short-read schedules
    for i in 0..4 {
        let p = if r_f.pct(60) { benign_policy(&mut r_f) } else { IoPolicy::default() };
        case.set(&format!("p{i}_seed"), (p.seed >> 1) as i64);
        case.set(&format!("p{i}_short"), p.short_pct as i64);
        case.set(&format!("p{i}_chunk"), p.max_chunk as i64);
        case.set(&format!("p{i}_intr"), p.intr_pct as i64);
    }
    case
}

pub fn x86dense(len: usize, seed: u64, density: u64) -> Vec<u8> {
    let mut rng = Rng::new(seed ^ 0x86);
    let mut out = vec![0u8; len];
    rng.fill(&mut out);
    let step = density.max(1) as usize;
    let mut i = rng.urange(0, step);
    while i + 8 <= len {
        match rng.below(4) {
            0 => out[i] = 0xE8,
            1 => out[i] = 0xE9,
            2 => {
                out[i] = 0x0F;
                out[i + 1] = 0x80 | (out[i + 1] & 0x0F);
            }
            _ => {
                out[i] = 0x0F;
                out[i + 1] = 0xE8;
            }
        }
        i += rng.urange(1, 2 * step);
    }
    out
}

fn policy(case: &Case, i: usize) -> IoPolicy {
    IoPolicy { seed: case.knob(&format!("p{i}_seed")) as u64, short_pct: case.knob(&format!("p{i}_short")) as u8, max_chunk: case.knob(&format!("p{i}_chunk")) as u32, intr_pct: case.knob(&format!("p{i}_intr")) as u8 }
}

pub fn exec(case: &Case, keep_log: bool) -> RunResult {
    let mut ctx = Ctx::new(keep_log);
    let data = if case.input.class == "x86dense" { x86dense(case.input.len, case.input.seed, case.input.p1) } else { case.input.gen() };
    ctx.ev("input_len", data.len() as u64);
    let mut erng = Rng::new(case.knob("enc_seed") as u64);
    let (streams, converted) = bcj2_encode(&data, &mut erng, case.knob("convert_pct") as u64);
    ctx.metric("bcj2_converted", converted);
    ctx.nontrivial = converted > 0;
    for s in &streams {
        ctx.bytes("stream", s);
    }
    let v = run_reader(case, &data, streams, &mut ctx);
    ctx.finish(v)
}

fn run_reader(case: &Case, data: &[u8], streams: [Vec<u8>; 4], ctx: &mut Ctx) -> Option<Violation> {
    let comp = "BCJ2Reader";
    let mut stats = Vec::new();
    let mut inputs = Vec::new();
    for (i, s) in streams.into_iter().enumerate() {
        let src = SimSource::new(s, &policy(case, i), &[]);
        stats.push(src.stats());
        inputs.push(src);
    }
    let sizes = case.read_sizes();
    let mut out = Vec::new();
    let total = data.len();
    let r = guarded(|| {
        let mut rd = lz::filter::bcj2::BCJ2Reader::new(inputs, total as u64);
        read_all(&mut rd, &sizes, total + (1 << 20), &mut out)
    });
    for (i, s) in stats.iter().enumerate() {
        ctx.absorb(["main", "call", "jump", "rc"][i], &s.lock().unwrap());
    }
    ctx.bytes("out", &out);
    match r {
        Err((loc, msg)) => Some(classify_panic(comp, &loc, &msg)),
        Ok(ReadEnd::Eof) if out == data => None,
        Ok(ReadEnd::Eof) => Some(Violation::new("bcj2-mismatch", comp, "bytes", format!("decoded {} bytes, expected {}, first difference at {}", out.len(), data.len(), first_diff(&out, data)))),
        Ok(ReadEnd::Err(e)) => Some(Violation::new("bcj2-rejected", comp, format!("{:?}:{e}", e.kind()), format!("a correctly encoded four-stream input fails after {} of {} bytes: {e}", out.len(), data.len()))),
        Ok(ReadEnd::Overflow) => Some(Violation::new("unbounded-output", comp, "output-cap", "more output than declared")),
        Ok(ReadEnd::Spin) => Some(Violation::new("hang", comp, "sticky-interrupted", "reader keeps answering Interrupted")),
    }
}
