//! C04: corrupted XZ/LZIP input is never returned as valid different data.

use crate::codec;
use crate::common::*;
use crate::optgen;
use simcore::case::{benign_policy, biased_len, random_input, random_rbufs, Case, IoPolicy, StFault, Violation};
use simcore::parsers;
use simcore::rng::{mix, Rng};
use simcore::run::{Ctx, RunResult};
use simcore::storage;
use std::collections::HashSet;
use std::sync::Arc;

pub fn gen(prop: &str, scen: &str, _k: u64, seed: u64, tier: &str) -> Case {
    let rng = Rng::new(seed);
    let mut case = Case { prop: prop.into(), scen: scen.into(), seed, ..Default::default() };
    let big = tier == "thorough";
    let mut r_in = rng.fork("input");
    let mut r_opt = rng.fork("opts");
    let mut r_ops = rng.fork("ops");
    let mut r_f = rng.fork("faults");
    let container = |case: &mut Case, r_opt: &mut Rng, len: usize| {
        optgen::random_format(r_opt, case, &["xz", "xz", "lzip"], len);
        if case.fmt == "xz" && case.opt.check == 0 {
            case.opt.check = *r_opt.pick(&[1u8, 4, 10]);
        }
    };
    match scen {
        "corrupt.bitflip" => {
            // small files, every single-bit flip
            let len = r_in.urange(0, if big { 400 } else { 160 });
            container(&mut case, &mut r_opt, len);
            case.opt.dict = *r_opt.pick(&[4096u32, 4096, 8192, 65536]);
            if r_opt.pct(40) {
                case.opt.unit = Some(1); // several blocks/members (raised to the dictionary size)
            }
            case.input = random_input(&mut r_in, len, case.opt.dict);
            if r_in.pct(25) {
                case.input.len = (case.opt.dict as usize) * r_in.urange(1, 2) + r_in.urange(0, 80);
                case.input.class = "zero".into();
            }
            case.rbufs = random_rbufs(&mut r_ops);
            case.set("only", -1);
            case.set("multi", r_ops.below(2) as i64);
            if case.fmt == "xz" && case.knob("multi") != 0 && r_in.pct(40) {
                case.set("streams", r_in.range(2, 3) as i64);
                case.set("pad_seed", (r_in.next_u64() >> 1) as i64);
                case.opt.unit = None;
            }
        }
        "corrupt.random" => {
            let len = biased_len(&mut r_in, if big { 600_000 } else { 40_000 }, &[4096, 8192, 65536]);
            container(&mut case, &mut r_opt, len);
            case.input = random_input(&mut r_in, len, case.opt.dict);
            case.rbufs = random_rbufs(&mut r_ops);
            case.src_policy = if r_f.pct(30) { benign_policy(&mut r_f) } else { IoPolicy::default() };
            case.set("nfaults", r_f.range(1, 3) as i64);
            case.set("fault_seed", (r_f.next_u64() >> 1) as i64);
            case.set("multi", r_ops.below(2) as i64);
            case.set("torn", r_f.pct(8) as i64);
            if case.fmt == "xz" && case.knob("multi") != 0 && r_in.pct(40) {
                case.set("streams", r_in.range(2, 4) as i64);
                case.set("pad_seed", (r_in.next_u64() >> 1) as i64);
                // cut a few bytes into one of the later streams in a third of these runs
                if r_f.pct(35) {
                    case.set("cut_into_stream", r_f.range(1, 3) as i64);
                    case.set("cut_bytes", r_f.range(1, 40) as i64);
                }
            }
        }
        "corrupt.field" => {
            let len = biased_len(&mut r_in, 20_000, &[4096, 8192]);
            container(&mut case, &mut r_opt, len);
            case.input = random_input(&mut r_in, len, case.opt.dict);
            case.rbufs = random_rbufs(&mut r_ops);
            case.set("field", r_f.below(40) as i64);
            case.set("value_kind", r_f.below(6) as i64);
            case.set("fix_crc", r_f.below(2) as i64);
            case.set("value_seed", (r_f.next_u64() >> 1) as i64);
            case.set("multi", r_ops.below(2) as i64);
        }
        _ => {
            // corrupt.nonformat
            case.fmt = (*r_opt.pick(&["xz", "lzip"])).into();
            case.input = simcore::case::InputSpec::new("random", r_in.urange(1, 300), r_in.next_u64());
            case.set("shape", r_in.below(6) as i64);
            case.rbufs = random_rbufs(&mut r_ops);
            case.set("multi", r_ops.below(2) as i64);
        }
    }
    case
}

pub fn exec(case: &Case, keep_log: bool) -> RunResult {
    let mut ctx = Ctx::new(keep_log);
    let data = case.input.gen();
    ctx.ev("input_len", data.len() as u64);
    let v = match case.scen.as_str() {
        "corrupt.bitflip" => bitflip(case, &data, &mut ctx),
        "corrupt.random" => random(case, &data, &mut ctx),
        "corrupt.field" => field(case, &data, &mut ctx),
        _ => nonformat(case, &data, &mut ctx),
    };
    codec::take_probes(&mut ctx);
    ctx.finish(v)
}

/// The valid file, provided it round-trips on its own (otherwise C02 reports it).
fn valid_file(case: &Case, data: &[u8], ctx: &mut Ctx) -> Option<Vec<u8>> {
    let stream = match prepare_file(case, data) {
        Ok((s, spans)) => {
            ctx.metric("streams_in_file", spans.len() as u64);
            s
        }
        Err(_) => {
            ctx.metric("skipped_writer_failed", 1);
            return None;
        }
    };
    let d = decode(case, &Arc::new(stream.clone()), &IoPolicy::default(), &[], data.len(), data.len() + (1 << 20), false);
    if !matches!(d.end, End::Eof) || d.out != data {
        ctx.metric("skipped_roundtrip_broken", 1);
        return None;
    }
    Some(stream)
}

/// The property's oracle for one damaged file.
pub fn judge(case: &Case, orig: &[u8], damaged: &[u8], data: &[u8], d: &Decoded) -> Option<Violation> {
    let comp = reader_component(case);
    // Output beyond the cap is not a success either: the property only constrains what is
    // reported as a successful read (resource bounds are C06's business).
    if !matches!(d.end, End::Overflow) {
        if let Some(v) = universal_decode_violation(case, d) {
            return Some(v);
        }
    }
    match &d.end {
        // A streaming decoder may hand out bytes of a damaged block before the block's check
        // fails; the read as a whole then "fails with an error", which is what is required.
        End::Err(..) | End::Overflow => None,
        End::Eof if d.out == data => None,
        // Damage can turn a valid file into another valid file (a member duplicated or removed,
        // a torn write that left a complete other file). No reader can tell; it is recognised
        // here by the reference implementation reading the damaged bytes to the same content.
        End::Eof if crate::interop::reference_reads(&case.fmt, case.knob_or("multi", 1) != 0, damaged).as_deref() == Some(&d.out[..]) => None,
        End::Eof if !is_prefix(&d.out, data) => Some(Violation::new("corrupt-data-returned", comp, "bytes-differ", format!("read reported success, byte {} of the decoded data differs from the original ({} bytes delivered, {} expected)", first_diff(&d.out, data), d.out.len(), data.len()))),
        End::Eof => {
            if case.fmt == "lzip" && lzip_trailing_ok(orig, damaged, d.out.len()) {
                return None;
            }
            Some(Violation::new("corrupt-accepted", comp, "data-missing", format!("damaged file read to a clean end of stream with {} of {} bytes", d.out.len(), data.len())))
        }
        _ => None,
    }
}

/// LZIP's own tolerance: the output is exactly the first k >= 1 members, those members are
/// untouched, and the damaged file does not continue with the member magic.
fn lzip_trailing_ok(orig: &[u8], damaged: &[u8], got: usize) -> bool {
    let Some(members) = parsers::lzip_members(orig) else { return false };
    let mut sum = 0usize;
    for m in &members {
        sum += m.data_size as usize;
        let next = m.start + m.len;
        if sum == got {
            if damaged.len() < next || damaged[..next] != orig[..next] {
                // maybe a later member boundary matches too (empty members)
                continue;
            }
            let tail = &damaged[next..];
            if !(tail.len() >= 4 && &tail[..4] == b"LZIP") {
                return true;
            }
        }
        if sum > got {
            break;
        }
    }
    false
}

fn bitflip(case: &Case, data: &[u8], ctx: &mut Ctx) -> Option<Violation> {
    let file = valid_file(case, data, ctx)?;
    ctx.bytes("file", &file);
    let only = case.knob_or("only", -1);
    let total_bits = file.len() * 8;
    let mut distinct: HashSet<u64> = HashSet::new();
    let range: Vec<usize> = if only >= 0 { vec![only as usize] } else { (0..total_bits).collect() };
    for bit in range {
        if bit >= total_bits {
            continue;
        }
        let mut damaged = file.clone();
        damaged[bit / 8] ^= 1 << (bit % 8);
        ctx.evals += 1;
        let d = decode(case, &Arc::new(damaged.clone()), &IoPolicy::default(), &[], data.len(), data.len() + (1 << 20), false);
        ctx.steps += d.stats.calls;
        distinct.insert(mix(bit as u64, mix(d.end.tag(), d.out.len() as u64)));
        if let Some(v) = judge(case, &file, &damaged, data, &d) {
            ctx.pin.insert("only".into(), bit as i64);
            let mut v = v;
            v.detail = format!("bit {} of byte {} of {} flipped: {}", bit % 8, bit / 8, file.len(), v.detail);
            return Some(v);
        }
    }
    ctx.fire("bitflip", ctx.evals);
    ctx.distinct_sub = distinct.len() as u64;
    ctx.nontrivial = true;
    ctx.metric("file_bytes", file.len() as u64);
    None
}

fn random(case: &Case, data: &[u8], ctx: &mut Ctx) -> Option<Violation> {
    let file = valid_file(case, data, ctx)?;
    let mut rng = Rng::new(case.knob("fault_seed") as u64);
    let mut damaged = file.clone();
    let faults: Vec<StFault> = if !case.storage.is_empty() { case.storage.clone() } else { (0..case.knob_or("nfaults", 1)).map(|_| storage::random_fault(&mut rng, file.len())).collect() };
    let mut applied = storage::apply(&mut damaged, &faults);
    if case.knob("cut_into_stream") > 0 && case.storage.is_empty() {
        // lost tail: the file ends a few bytes into the header of a later stream
        if let Ok((f2, spans)) = prepare_file(case, data) {
            let i = (case.knob("cut_into_stream") as usize).min(spans.len() - 1);
            if i >= 1 && f2 == file {
                damaged = file.clone();
                damaged.truncate((spans[i].0 + case.knob("cut_bytes") as usize).min(file.len() - 1));
                applied = 1;
                ctx.fire("cut_into_later_stream", 1);
            }
        }
    }
    if case.knob("torn") != 0 {
        // torn write: prefix of this file followed by the tail of another valid file
        let mut other = case.clone();
        other.input.seed ^= 0x55;
        other.input.len = (data.len() / 2).max(1);
        if let Ok(o) = prepare_stream(&other, &other.input.gen()) {
            let cut = rng.urange(0, damaged.len());
            let ocut = rng.urange(0, o.len());
            damaged.truncate(cut);
            damaged.extend_from_slice(&o[ocut..]);
            applied += 1;
            ctx.fire("torn_write", 1);
        }
    }
    if applied == 0 || damaged == file || damaged.is_empty() {
        ctx.metric("skipped_noop_fault", 1);
        return None;
    }
    for f in &faults {
        ctx.fire(&f.kind, 1);
    }
    ctx.bytes("damaged", &damaged);
    ctx.nontrivial = true;
    let d = decode(case, &Arc::new(damaged.clone()), &case.src_policy, &[], data.len(), data.len() + (1 << 20), ctx.keep_log);
    ctx.absorb("source", &d.stats);
    ctx.ev("end", d.end.tag());
    let mut v = judge(case, &file, &damaged, data, &d)?;
    v.detail = format!("faults {:?}: {}", faults.iter().map(|f| format!("{}({},{},{})", f.kind, f.a, f.b, f.c)).collect::<Vec<_>>(), v.detail);
    Some(v)
}

fn pick_value(kind: i64, old: u64, max: u64, rng: &mut Rng) -> u64 {
    match kind {
        0 => 0,
        1 => 1,
        2 => max,
        3 => old.wrapping_add(1) & max,
        4 => old.wrapping_sub(1) & max,
        _ => rng.next_u64() & max,
    }
}

/// Structured edits of header / size / CRC / control fields with and without CRC fix-up.
fn field(case: &Case, data: &[u8], ctx: &mut Ctx) -> Option<Violation> {
    let file = valid_file(case, data, ctx)?;
    let mut rng = Rng::new(case.knob("value_seed") as u64);
    let mut damaged = file.clone();
    let fix = case.knob("fix_crc") != 0;
    let vk = case.knob("value_kind");
    let fidx = case.knob("field") as usize;
    let mut name = String::new();
    if case.fmt == "xz" {
        let streams = match parsers::xz_file(&file) {
            Ok(s) => s,
            Err(_) => {
                ctx.metric("skipped_unparsable", 1);
                return None;
            }
        };
        let s = &streams[0];
        let nb = s.blocks.len();
        let b = if nb > 0 { Some(&s.blocks[rng.urange(0, nb - 1)]) } else { None };
        let set_byte = |d: &mut Vec<u8>, pos: usize, rng: &mut Rng| {
            let old = d[pos] as u64;
            d[pos] = pick_value(vk, old, 0xFF, rng) as u8;
        };
        let set_u32 = |d: &mut Vec<u8>, pos: usize, rng: &mut Rng| {
            let old = u32::from_le_bytes(d[pos..pos + 4].try_into().unwrap()) as u64;
            let v = pick_value(vk, old, 0xFFFF_FFFF, rng) as u32;
            d[pos..pos + 4].copy_from_slice(&v.to_le_bytes());
        };
        // whole-structure damage: every block keeps its valid header CRC and check, only the
        // index no longer describes the blocks
        let block_span = |b: &parsers::XzBlock| (b.start, b.check_start + b.check_len);
        match (fidx % 20, b) {
            (16, Some(b)) => {
                name = "block_duplicated".into();
                let (a, e) = block_span(b);
                let copy = damaged[a..e].to_vec();
                damaged.splice(e..e, copy);
            }
            (17, Some(b)) => {
                name = "block_removed".into();
                let (a, e) = block_span(b);
                damaged.drain(a..e);
            }
            (18, Some(_)) if nb >= 2 => {
                name = "blocks_swapped".into();
                let i = rng.urange(0, nb - 2);
                let (a0, e0) = block_span(&s.blocks[i]);
                let (a1, e1) = block_span(&s.blocks[i + 1]);
                let first = damaged[a0..e0].to_vec();
                let second = damaged[a1..e1].to_vec();
                let mut both = second;
                both.extend_from_slice(&first);
                damaged.splice(a0..e1, both);
            }
            (19, Some(_)) => {
                name = "index_record_removed".into();
                // a well-formed index (count, padding, CRC32, backward size) with one record less
                let drop = rng.urange(0, nb - 1);
                let mut idx = vec![0u8];
                parsers::write_vli((nb - 1) as u64, &mut idx);
                for (i, blk) in s.blocks.iter().enumerate() {
                    if i != drop {
                        parsers::write_vli(blk.unpadded_size, &mut idx);
                        parsers::write_vli(blk.uncompressed_size, &mut idx);
                    }
                }
                while idx.len() % 4 != 0 {
                    idx.push(0);
                }
                let crc = parsers::crc32(&idx);
                idx.extend_from_slice(&crc.to_le_bytes());
                let new_len = idx.len();
                damaged.splice(s.index_start..s.index_start + s.index_len, idx);
                let fs = s.index_start + new_len;
                let bw = (new_len / 4 - 1) as u32;
                damaged[fs + 4..fs + 8].copy_from_slice(&bw.to_le_bytes());
                parsers::xz_fix_footer_crc(&mut damaged, fs);
            }
            _ if fidx % 20 >= 16 => {
                name = "structure_edit_not_applicable".into();
            }
            _ => {}
        }
        match (fidx % 20, b) {
            (16..=19, _) => {}
            (0, _) => {
                name = "stream_flags_0".into();
                set_byte(&mut damaged, s.start + 6, &mut rng);
                if fix {
                    parsers::xz_fix_header_crc(&mut damaged, s.start);
                }
            }
            (1, _) => {
                name = "stream_flags_check".into();
                set_byte(&mut damaged, s.start + 7, &mut rng);
                if fix {
                    parsers::xz_fix_header_crc(&mut damaged, s.start);
                }
            }
            (2, _) => {
                name = "stream_header_crc".into();
                set_u32(&mut damaged, s.start + 8, &mut rng);
            }
            (3, Some(b)) => {
                name = "block_header_size".into();
                set_byte(&mut damaged, b.start, &mut rng);
                if fix {
                    parsers::xz_fix_block_header_crc(&mut damaged, b.start);
                }
            }
            (4, Some(b)) => {
                name = "block_flags".into();
                set_byte(&mut damaged, b.start + 1, &mut rng);
                if fix {
                    parsers::xz_fix_block_header_crc(&mut damaged, b.start);
                }
            }
            (5, Some(b)) => {
                name = "block_header_byte".into();
                let p = b.start + rng.urange(2, b.header_len - 5);
                set_byte(&mut damaged, p, &mut rng);
                if fix {
                    parsers::xz_fix_block_header_crc(&mut damaged, b.start);
                }
            }
            (6, Some(b)) => {
                name = "block_header_crc".into();
                set_u32(&mut damaged, b.start + b.header_len - 4, &mut rng);
            }
            (7, Some(b)) if b.data_len > 0 => {
                name = "lzma2_control_byte".into();
                set_byte(&mut damaged, b.data_start, &mut rng);
            }
            (8, Some(b)) if b.data_len > 6 => {
                name = "lzma2_chunk_header".into();
                let p = b.data_start + rng.urange(1, 5);
                set_byte(&mut damaged, p, &mut rng);
            }
            (9, Some(b)) if b.check_len > 0 => {
                name = "block_check".into();
                let p = b.check_start + rng.urange(0, b.check_len - 1);
                set_byte(&mut damaged, p, &mut rng);
            }
            (10, Some(b)) if b.padding > 0 => {
                name = "block_padding".into();
                set_byte(&mut damaged, b.data_start + b.data_len, &mut rng);
            }
            (11, _) => {
                name = "index_record_count".into();
                // rewrite the count VLI in place when the new value fits into the same length
                let p = s.index_start + 1;
                let old = damaged[p] as u64;
                let v = pick_value(vk, old & 0x7F, 0x7F, &mut rng) as u8;
                damaged[p] = (damaged[p] & 0x80) | v;
                if fix {
                    parsers::xz_fix_index_crc(&mut damaged, s.index_start, s.index_len);
                }
            }
            (12, _) => {
                name = "index_byte".into();
                let p = s.index_start + rng.urange(1, s.index_len - 5);
                set_byte(&mut damaged, p, &mut rng);
                if fix {
                    parsers::xz_fix_index_crc(&mut damaged, s.index_start, s.index_len);
                }
            }
            (13, _) => {
                name = "footer_backward_size".into();
                set_u32(&mut damaged, s.footer_start + 4, &mut rng);
                if fix {
                    parsers::xz_fix_footer_crc(&mut damaged, s.footer_start);
                }
            }
            (14, _) => {
                name = "footer_flags".into();
                set_byte(&mut damaged, s.footer_start + 9, &mut rng);
                if fix {
                    parsers::xz_fix_footer_crc(&mut damaged, s.footer_start);
                }
            }
            _ => {
                name = "footer_magic".into();
                set_byte(&mut damaged, s.end - 1 - rng.urange(0, 1), &mut rng);
            }
        }
    } else {
        let members = match parsers::lzip_members(&file) {
            Some(m) if !m.is_empty() => m,
            _ => {
                ctx.metric("skipped_unparsable", 1);
                return None;
            }
        };
        let m = &members[rng.urange(0, members.len() - 1)];
        let end = m.start + m.len;
        let set_byte = |d: &mut Vec<u8>, pos: usize, rng: &mut Rng| {
            let old = d[pos] as u64;
            d[pos] = pick_value(vk, old, 0xFF, rng) as u8;
        };
        let set_u64 = |d: &mut Vec<u8>, pos: usize, rng: &mut Rng| {
            let old = u64::from_le_bytes(d[pos..pos + 8].try_into().unwrap());
            let v = pick_value(vk, old, u64::MAX, rng);
            d[pos..pos + 8].copy_from_slice(&v.to_le_bytes());
        };
        match fidx % 7 {
            0 => {
                name = "lzip_magic".into();
                set_byte(&mut damaged, m.start + rng.urange(0, 3), &mut rng);
            }
            1 => {
                name = "lzip_version".into();
                set_byte(&mut damaged, m.start + 4, &mut rng);
            }
            2 => {
                name = "lzip_dict_byte".into();
                set_byte(&mut damaged, m.start + 5, &mut rng);
            }
            3 => {
                name = "lzip_crc".into();
                set_byte(&mut damaged, end - 20 + rng.urange(0, 3), &mut rng);
            }
            4 => {
                name = "lzip_data_size".into();
                set_u64(&mut damaged, end - 16, &mut rng);
            }
            5 => {
                name = "lzip_member_size".into();
                set_u64(&mut damaged, end - 8, &mut rng);
            }
            _ => {
                name = "lzip_payload_first_bytes".into();
                set_byte(&mut damaged, m.start + 6 + rng.urange(0, 4.min(m.len - 27)), &mut rng);
            }
        }
    }
    if damaged == file {
        ctx.metric("skipped_noop_fault", 1);
        return None;
    }
    ctx.fire(&format!("field:{name}{}", if fix { "+crcfix" } else { "" }), 1);
    ctx.bytes("damaged", &damaged);
    ctx.nontrivial = true;
    let d = decode(case, &Arc::new(damaged.clone()), &IoPolicy::default(), &[], data.len(), data.len() + (1 << 20), ctx.keep_log);
    ctx.absorb("source", &d.stats);
    ctx.ev("end", d.end.tag());
    let mut v = judge(case, &file, &damaged, data, &d)?;
    v.detail = format!("field {name} (value kind {vk}, crc fix-up {fix}): {}", v.detail);
    Some(v)
}

/// Non-empty input that is not the format at all: must be an error, never Ok(anything).
fn nonformat(case: &Case, garbage: &[u8], ctx: &mut Ctx) -> Option<Violation> {
    let mut bytes = garbage.to_vec();
    let xz_magic = [0xFDu8, b'7', b'z', b'X', b'Z', 0];
    match case.knob("shape") {
        0 => {}
        1 => {
            // the other format's magic
            let m: &[u8] = if case.fmt == "xz" { b"LZIP\x01\x0c" } else { &xz_magic };
            bytes.splice(0..0, m.iter().copied());
        }
        2 => {
            // own magic, garbage after it
            let m: &[u8] = if case.fmt == "xz" { &xz_magic } else { b"LZIP" };
            bytes.splice(0..0, m.iter().copied());
        }
        3 => bytes = b"this is not a compressed file at all\n".to_vec(),
        4 => {
            // gzip / zstd / bzip2 magics
            let m: &[u8] = *Rng::new(case.seed).pick(&[&[0x1Fu8, 0x8B, 8, 0][..], &[0x28, 0xB5, 0x2F, 0xFD][..], b"BZh9"]);
            bytes.splice(0..0, m.iter().copied());
        }
        _ => {
            // valid magic and version, invalid rest of the header
            if case.fmt == "xz" {
                bytes.splice(0..0, xz_magic.iter().copied().chain([0u8, 0x01, 0, 0, 0, 0]));
            } else {
                bytes.splice(0..0, b"LZIP\x01\xff".iter().copied());
            }
        }
    }
    if bytes.is_empty() {
        return None;
    }
    // a random string could by chance be a valid file; the harness's own parsers say whether it is
    let valid = if case.fmt == "xz" { parsers::xz_file(&bytes).is_ok() } else { parsers::lzip_members(&bytes).is_some() };
    if valid {
        ctx.metric("skipped_accidentally_valid", 1);
        return None;
    }
    ctx.fire("non_format_input", 1);
    ctx.bytes("garbage", &bytes);
    ctx.nontrivial = true;
    let comp = reader_component(case);
    let d = decode(case, &Arc::new(bytes.clone()), &IoPolicy::default(), &[], 0, 1 << 20, ctx.keep_log);
    ctx.absorb("source", &d.stats);
    universal_decode_violation(case, &d).or_else(|| match &d.end {
        End::Err(..) => None,
        End::Eof => Some(Violation::new("garbage-accepted", comp, case.fmt.clone(), format!("{} bytes that are not a {} file (shape {}) were decoded without error to {} bytes", bytes.len(), case.fmt, case.knob("shape"), d.out.len()))),
        _ => None,
    })
}
