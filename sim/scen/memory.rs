//! C17: memory estimators are sound and reasonably tight; memory limits are enforced before
//! allocating. Measured through the allocator seam (requested bytes, not resident pages).

use crate::codec;
use crate::common::*;
use crate::lz;
use crate::optgen;
use simcore::alloc::Scope;
use simcore::case::{Case, InputSpec, Violation};
use simcore::rng::Rng;
use simcore::run::{classify_panic, guarded, Ctx, RunResult};
use std::io::{Read, Write};

/// Tightness: estimate <= F * peak + S. Chosen once from measurements of the repaired tree
/// (see DESIGN.md C17) with margin; not tuned per run.
/// Measured on the repaired tree (2026-09-24, 20 sampled configurations, dict 4 KiB - 8 MiB):
/// estimate / peak = 1.00-1.02 from 1 MiB up, 1.06-1.35 below (absolute slack 10-230 KiB).
pub const F: f64 = 1.25;
pub const S: usize = 256 << 10;

pub fn gen(prop: &str, scen: &str, _k: u64, seed: u64, tier: &str) -> Case {
    let rng = Rng::new(seed);
    let mut case = Case { prop: prop.into(), scen: scen.into(), seed, ..Default::default() };
    let big = tier == "thorough";
    let mut r_opt = rng.fork("opts");
    let mut r_in = rng.fork("input");
    case.opt = optgen::lzma_opts(&mut r_opt, scen != "mem.decoder.lzma");
    let dicts: &[u32] = if big { &[4096, 65536, 1 << 20, 8 << 20, 8 << 20, 16 << 20, 32 << 20] } else { &[4096, 4096, 5000, 65536, 65536, 1 << 20, 3 << 19, 8 << 20] };
    case.opt.dict = *r_opt.pick(dicts);
    if r_opt.pct(20) {
        case.opt.dict = r_opt.range(4096, 4 << 20) as u32;
    }
    match scen {
        "mem.encoder" => {
            case.fmt = (*r_opt.pick(&["lzma2", "lzma2", "lzma", "lzma"])).into();
            if case.fmt == "lzma" {
                case.set("marker", 1);
                if r_opt.pct(60) {
                    // LZMA1 allows lc 0..=8 and lp 0..=4: the literal coder grows with 2^(lc+lp)
                    case.opt.lc = r_opt.range(0, 8) as u32;
                    case.opt.lp = r_opt.range(0, 4) as u32;
                }
            } else if r_opt.pct(35) {
                case.opt.unit = Some(case.opt.dict as u64);
            }
            case.input = InputSpec::new("text", (case.opt.dict as usize).min(3 << 20) + r_in.urange(0, 70000), r_in.next_u64());
            if case.opt.unit.is_some() {
                case.input.len = (case.opt.dict as usize).min(1 << 20) * 2 + 5000;
                if case.opt.dict > (1 << 20) {
                    case.opt.unit = None;
                }
            }
        }
        "mem.estimator" => {
            // the estimators alone over the whole range of dictionary sizes (no allocation)
            case.fmt = "lzma".into();
            if r_opt.pct(50) {
                case.opt.lc = r_opt.range(0, 8) as u32;
                case.opt.lp = r_opt.range(0, 4) as u32;
            }
            case.set("extra_dict", r_opt.range(4096, 768 << 20) as i64);
            case.input = InputSpec::new("empty", 0, 0);
        }
        "mem.decoder.lzma" => {
            case.fmt = "lzma".into();
            case.set("marker", 1);
            case.input = InputSpec::new("text", r_in.urange(0, 30000), r_in.next_u64());
        }
        "mem.decoder.lzma2" => {
            case.fmt = "lzma2".into();
            case.input = InputSpec::new("text", r_in.urange(0, 30000), r_in.next_u64());
            if r_in.pct(50) {
                // several independent units: the properties are decoded again for each of them
                case.set("multi_unit", 1);
                case.input.len = 3 * 4096 + r_in.urange(1, 5000);
            } else if r_in.pct(60) {
                // incompressible data: stored (uncompressed) chunks of up to 64 KiB, read with
                // one large destination buffer
                case.input = InputSpec::new(*r_in.pick(&["random", "random", "incomp_then_comp", "mixed"]), r_in.urange(20_000, 200_000), r_in.next_u64());
                case.input.p1 = *r_in.pick(&[50u64, 80, 3000]);
            }
        }
        _ => {
            // mem.limit
            case.fmt = "lzma".into();
            case.set("hdr", 1);
            case.set("marker", 1);
            case.input = InputSpec::new("text", r_in.urange(0, 3000), r_in.next_u64());
            case.set("limit_delta", *r_in.pick(&[-1000000i64, -1, 0, 1, 1000]));
            case.set("hdr_dict", *r_in.pick(&[-1i64, 4096, 1 << 20, 1 << 26, 1 << 30, 0xFFFF_FFF0, 0xFFFF_FFFF]));
            case.set("hdr_props", *r_in.pick(&[-1i64, 0, 93, 224]));
            // a declared size (smaller than / equal to / larger than the dictionary, or unknown)
            case.set("hdr_size", *r_in.pick(&[-1i64, -1, 0, 1, 1500, 4095, 4097, 1 << 20, 1 << 34]));
            // and optionally a preset dictionary handed to the reader
            case.set("with_preset", r_in.pct(40) as i64);
            case.set("preset_len", *r_in.pick(&[1i64, 2048, 5000, 70000]));
        }
    }
    case
}

pub fn exec(case: &Case, keep_log: bool) -> RunResult {
    let mut ctx = Ctx::new(keep_log);
    let data = case.input.gen();
    ctx.ev("dict", case.opt.dict as u64);
    ctx.nontrivial = true;
    let v = match case.scen.as_str() {
        "mem.estimator" => estimators(case, &mut ctx),
        "mem.encoder" => encoder(case, &data, &mut ctx),
        "mem.decoder.lzma" | "mem.decoder.lzma2" => decoder(case, &data, &mut ctx),
        _ => limit(case, &data, &mut ctx),
    };
    codec::take_probes(&mut ctx);
    ctx.finish(v)
}

fn judge(comp: &str, what: &str, est_kib: u64, peak: usize, case: &Case, ctx: &mut Ctx) -> Option<Violation> {
    let est = est_kib as usize * 1024;
    ctx.ev("estimate_kib", est_kib);
    ctx.ev("peak", peak as u64);
    ctx.metric("estimate_over_peak_permille_sum", if peak > 0 { (est as u128 * 1000 / peak as u128) as u64 } else { 0 });
    if peak > est {
        return Some(Violation::new("estimate-too-low", comp, what, format!("dict {} lc{} lp{} mode {} mf {} unit {:?}: peak heap {} bytes exceeds the estimate of {} KiB = {} bytes", case.opt.dict, case.opt.lc, case.opt.lp, case.opt.mode, case.opt.mf, case.opt.unit, peak, est_kib, est)));
    }
    if est as f64 > F * peak as f64 + S as f64 {
        return Some(Violation::new("estimate-too-high", comp, what, format!("dict {} lc{} lp{} mode {} mf {}: estimate {} KiB = {} bytes is more than {F} x the real peak of {} bytes + {} KiB", case.opt.dict, case.opt.lc, case.opt.lp, case.opt.mode, case.opt.mf, est_kib, est, peak, S >> 10)));
    }
    None
}

fn encoder(case: &Case, data: &[u8], ctx: &mut Ctx) -> Option<Violation> {
    let comp = writer_component(case);
    let opts = codec::lzma_options(&case.opt);
    let est = opts.get_memory_usage() as u64;
    let scope = Scope::begin();
    let r = guarded(|| -> std::io::Result<()> {
        // std::io::sink() does not allocate, so only the writer's own memory is measured
        if case.fmt == "lzma2" {
            let mut w = lz::LZMA2Writer::new(std::io::sink(), codec::lzma2_options(&case.opt));
            // in pieces: independent chunks (chunk_size) are only started between write calls
            let unit = case.opt.unit.map(|u| (u as usize).max(case.opt.dict as usize));
            let mut since = 0usize;
            for piece in data.chunks(8192) {
                w.write_all(piece)?;
                since += piece.len();
                if unit.map(|u| since >= u).unwrap_or(false) {
                    // everything written so far leaves the encoder: the next write call starts
                    // an independent chunk (and with it a new encoder)
                    w.flush()?;
                    since = 0;
                }
            }
            w.finish()?;
        } else {
            let mut w = lz::LZMAWriter::new_no_header(std::io::sink(), &opts, true)?;
            w.write_all(data)?;
            w.finish()?;
        }
        Ok(())
    });
    let peak = scope.peak();
    match r {
        Err((loc, msg)) => return Some(classify_panic(comp, &loc, &msg)),
        Ok(Err(e)) => return Some(Violation::new("writer-error", comp, format!("{:?}", e.kind()), e.to_string())),
        Ok(Ok(())) => {}
    }
    judge(comp, if case.opt.unit.is_some() { "encoder+chunk_size" } else { "encoder" }, est, peak, case, ctx)
}

fn decoder(case: &Case, data: &[u8], ctx: &mut Ctx) -> Option<Violation> {
    let comp = reader_component(case);
    // a small valid stream written with a small dictionary; the reader is told the big one
    let mut wc = case.clone();
    wc.opt.dict = wc.opt.dict.min(1 << 16);
    wc.opt.preset = None;
    if case.knob("multi_unit") != 0 {
        wc.opt.dict = 4096;
        wc.opt.unit = Some(4096);
    }
    let stream = prepare_stream(&wc, data).ok()?;
    let mut out = vec![0u8; data.len() + 16];
    let o = &case.opt;
    let est = if case.fmt == "lzma" {
        match lz::lzma_get_memory_usage(o.dict, o.lc, o.lp) {
            Ok(e) => e as u64,
            Err(e) => return Some(Violation::new("estimator-error", comp, "lzma", format!("in-range parameters rejected: {e}"))),
        }
    } else {
        lz::lzma2_get_memory_usage(o.dict) as u64
    };
    // the props-byte variant must agree
    if case.fmt == "lzma" {
        let props = ((o.pb * 5 + o.lp) * 9 + o.lc) as u8;
        match lz::lzma_get_memory_usage_by_props(o.dict, props) {
            Ok(e) if e as u64 == est => {}
            other => return Some(Violation::new("estimator-inconsistent", comp, "by_props", format!("get_memory_usage = {est} KiB, by_props({props}) = {other:?}"))),
        }
    }
    let scope = Scope::begin();
    let r = guarded(|| -> std::io::Result<usize> {
        let mut n = 0;
        if case.fmt == "lzma" {
            let mut rd = lz::LZMAReader::new(stream.as_slice(), u64::MAX, o.lc, o.lp, o.pb, o.dict, None)?;
            loop {
                let k = rd.read(&mut out[n..])?;
                if k == 0 {
                    break;
                }
                n += k;
            }
        } else {
            let mut rd = lz::LZMA2Reader::new(stream.as_slice(), o.dict, None);
            loop {
                let k = rd.read(&mut out[n..])?;
                if k == 0 {
                    break;
                }
                n += k;
            }
        }
        Ok(n)
    });
    let peak = scope.peak();
    match r {
        Err((loc, msg)) => return Some(classify_panic(comp, &loc, &msg)),
        Ok(Err(_)) => {
            ctx.metric("skipped_roundtrip_broken", 1);
            return None;
        }
        Ok(Ok(_)) => {}
    }
    judge(comp, "decoder", est, peak, case, ctx)
}

fn limit(case: &Case, data: &[u8], ctx: &mut Ctx) -> Option<Violation> {
    let comp = "LZMAReader";
    let mut wc = case.clone();
    wc.opt.dict = wc.opt.dict.min(1 << 16);
    wc.opt.preset = None;
    let mut stream = prepare_stream(&wc, data).ok()?;
    if stream.len() < 13 {
        return None;
    }
    // header edits: what counts is what the header declares
    if case.knob_or("hdr_dict", -1) >= 0 {
        stream[1..5].copy_from_slice(&(case.knob("hdr_dict") as u32).to_le_bytes());
    }
    if case.knob_or("hdr_props", -1) >= 0 {
        stream[0] = case.knob("hdr_props") as u8;
    }
    if case.knob_or("hdr_size", -1) >= 0 {
        stream[5..13].copy_from_slice(&(case.knob("hdr_size") as u64).to_le_bytes());
    }
    let preset: Option<Vec<u8>> = if case.knob("with_preset") != 0 { Some(InputSpec::new("text", case.knob_or("preset_len", 100) as usize, 5).gen()) } else { None };
    let h = simcore::parsers::lzma_header(&stream)?;
    let need = match lz::lzma_get_memory_usage_by_props(h.dict, h.props) {
        Ok(n) => n as i64,
        Err(_) => {
            // header the estimator rejects: the reader must reject it too, without a big allocation
            let scope = Scope::begin();
            let r = guarded(|| lz::LZMAReader::new_mem_limit(stream.as_slice(), u32::MAX, None).map(|_| ()));
            let largest = scope.largest();
            return match r {
                Err((loc, msg)) => Some(classify_panic(comp, &loc, &msg)),
                Ok(Ok(())) => Some(Violation::new("invalid-header-accepted", comp, "new_mem_limit", format!("header props {} dict {} is rejected by the estimator but accepted by the reader", h.props, h.dict))),
                Ok(Err(_)) if largest > (1 << 20) => Some(Violation::new("allocated-before-rejecting", comp, "new_mem_limit", format!("rejected header, but {largest} bytes were requested first"))),
                Ok(Err(_)) => None,
            };
        }
    };
    let lim = (need + case.knob("limit_delta")).clamp(0, u32::MAX as i64 - 1) as u32;
    ctx.ev("need_kib", need as u64);
    ctx.ev("limit_kib", lim as u64);
    let scope = Scope::begin();
    let r = guarded(|| lz::LZMAReader::new_mem_limit(stream.as_slice(), lim, preset.as_deref()).map(|_| ()));
    let largest = scope.largest();
    let peak = scope.peak();
    ctx.ev("preset", preset.as_ref().map(|p| p.len() as u64).unwrap_or(0));
    match r {
        Err((loc, msg)) => Some(classify_panic(comp, &loc, &msg)),
        Ok(Ok(())) => {
            if (lim as i64) < need {
                // The reader may legitimately size its window by a smaller declared size; what
                // must never happen is that it allocates more than the limit it was given.
                if peak > (lim as usize + 64) * 1024 {
                    return Some(Violation::new("limit-not-enforced", comp, "new_mem_limit", format!("header dict {} size {:#x} preset {:?}: limit {lim} KiB, reader was created and allocated {} KiB (estimate for the header {need} KiB)", h.dict, h.size, preset.as_ref().map(|p| p.len()), peak / 1024)));
                }
                ctx.metric("created_below_header_estimate_within_limit", 1);
                None
            } else if peak > (need as usize + 64) * 1024 {
                Some(Violation::new("estimate-too-low", comp, "new_mem_limit", format!("header dict {} size {:#x}: estimate {need} KiB, construction allocated {} KiB", h.dict, h.size, peak / 1024)))
            } else {
                None
            }
        }
        Ok(Err(e)) => {
            if (lim as i64) >= need {
                // other header problems (e.g. dictionary too large) are fine, OutOfMemory is not
                if e.kind() == std::io::ErrorKind::OutOfMemory {
                    return Some(Violation::new("limit-too-strict", comp, "new_mem_limit", format!("needs {need} KiB, limit {lim} KiB, reader refused: {e}")));
                }
                return None;
            }
            if e.kind() != std::io::ErrorKind::OutOfMemory {
                return Some(Violation::new("limit-wrong-error", comp, "new_mem_limit", format!("needs {need} KiB, limit {lim} KiB: expected OutOfMemory, got {:?}: {e}", e.kind())));
            }
            if largest > (64 << 10) {
                return Some(Violation::new("allocated-before-rejecting", comp, "new_mem_limit", format!("limit exceeded, but {largest} bytes were requested before the error")));
            }
            None
        }
    }
}

/// The estimators over dictionary sizes up to the encoder's maximum (768 MiB) and the decoder's
/// (4 GiB - 1), without allocating anything: they must not panic (overflow checks are on in this
/// build), must not decrease when the dictionary grows, and can never be below what the window
/// and the match finder's position table alone need.
fn estimators(case: &Case, ctx: &mut Ctx) -> Option<Violation> {
    let mut dicts: Vec<u32> = vec![4096, 4097, 65536, 1 << 20, 3 << 19, 1 << 24, 3 << 23, 1 << 26, 1 << 28, 3 << 27, (1 << 29) - 2, (1 << 29) - 1, 1 << 29, (1 << 29) + 1, 3 << 28];
    dicts.push((case.knob("extra_dict") as u32).clamp(4096, 3 << 28));
    dicts.sort();
    dicts.dedup();
    ctx.nontrivial = true;
    let mut prev: Option<(u32, u32)> = None;
    for &d in &dicts {
        ctx.evals += 1;
        let mut o = case.opt.clone();
        o.dict = d;
        let opts = codec::lzma_options(&o);
        let est = match guarded(|| opts.get_memory_usage()) {
            Ok(e) => e,
            Err((loc, msg)) => return Some(classify_panic("LZMAOptions", &loc, &format!("get_memory_usage() for dict {d} mode {} mf {}: {msg}", o.mode, o.mf))),
        };
        // window >= dict bytes; hash chain: 4 bytes, binary tree: 8 bytes per dictionary position
        let per_pos: u64 = if o.mf == 0 { 4 } else { 8 };
        let floor = (d as u64 * (1 + per_pos)) / 1024;
        if (est as u64) < floor {
            return Some(Violation::new("estimate-too-low", "LZMAOptions", "estimator-floor", format!("dict {d} mode {} mf {}: estimate {est} KiB is below {floor} KiB, which the window and the match finder's position table alone need", o.mode, o.mf)));
        }
        if let Some((pd, pe)) = prev {
            if est < pe {
                return Some(Violation::new("estimate-not-monotone", "LZMAOptions", "estimator", format!("mode {} mf {}: estimate for dict {d} is {est} KiB, for the smaller dict {pd} it is {pe} KiB", o.mode, o.mf)));
            }
        }
        prev = Some((d, est));
    }
    // decoder side: up to 4 GiB - 1
    let mut prev: Option<(u32, u32)> = None;
    for &d in &[4096u32, 1 << 20, 1 << 28, 1 << 30, 3 << 30, u32::MAX - 15, u32::MAX] {
        ctx.evals += 1;
        let r = guarded(|| (lz::lzma_get_memory_usage(d, case.opt.lc, case.opt.lp), lz::lzma2_get_memory_usage(d)));
        let (e1, e2) = match r {
            Ok(x) => x,
            Err((loc, msg)) => return Some(classify_panic("decoder estimator", &loc, &format!("dict {d}: {msg}"))),
        };
        if let Ok(e1) = e1 {
            let floor = d / 1024;
            if e1 < floor || e2 < floor {
                return Some(Violation::new("estimate-too-low", "decoder estimator", "estimator-floor", format!("dict {d}: lzma {e1} KiB / lzma2 {e2} KiB below the dictionary itself ({floor} KiB)")));
            }
            if let Some((pd, pe)) = prev {
                if e1 < pe {
                    return Some(Violation::new("estimate-not-monotone", "decoder estimator", "estimator", format!("estimate for dict {d} is {e1} KiB, for the smaller dict {pd} it is {pe} KiB")));
                }
            }
            prev = Some((d, e1));
        }
    }
    ctx.distinct_sub = dicts.len() as u64;
    None
}
