//! Round-trip family: C01 (codec), C02 (containers), C07 (call histories), C12 (concatenation),
//! C13 (determinism), C16 (exact consumption), C18 (size options).

use crate::codec;
use crate::common::*;
use crate::lz;
use crate::optgen;
use simcore::case::{benign_policy, biased_len, random_input, random_rbufs, random_wops, Case, InputSpec, IoPolicy, Violation, WOp};
use simcore::io::{read_all, ReadEnd, SimSink, SimSource};
use simcore::parsers;
use simcore::rng::Rng;
use simcore::run::{classify_panic, guarded, Ctx, RunResult};
use std::io::Read;
use std::sync::Arc;

pub fn gen(prop: &str, scen: &str, _k: u64, seed: u64, tier: &str) -> Case {
    let rng = Rng::new(seed);
    let mut case = Case { prop: prop.into(), scen: scen.into(), seed, ..Default::default() };
    let big = tier == "thorough";
    let mut r_in = rng.fork("input");
    let mut r_opt = rng.fork("opts");
    let mut r_ops = rng.fork("ops");
    let mut r_f = rng.fork("faults");
    let codec_formats: &[&str] = &["lzma", "lzma2", "lzma2"];
    let container_formats: &[&str] = &["xz", "xz", "lzip"];
    let all: &[&str] = &["lzma", "lzma2", "xz", "lzip", "bcj", "delta"];
    let histories = |case: &mut Case, r_ops: &mut Rng, r_f: &mut Rng, len: usize| {
        case.wops = random_wops(r_ops, len, true, 40);
        case.rbufs = random_rbufs(r_ops);
        if r_f.pct(30) {
            case.sink_policy = benign_policy(r_f);
            // Interrupted from the sink is retried by write_all inside the library
        }
        if r_f.pct(30) {
            case.src_policy = benign_policy(r_f);
        }
    };
    match scen {
        "rt.codec" | "rt.container" => {
            let fmts = if scen == "rt.codec" { codec_formats } else { container_formats };
            let maxlen = if big { 400_000 } else { 70_000 };
            // length first (options may depend on it), biased to dictionary/chunk boundaries
            let len = biased_len(&mut r_in, maxlen, &[4096, 8192, 65536, 65536 + 4096]);
            optgen::random_format(&mut r_opt, &mut case, fmts, len);
            case.input = random_input(&mut r_in, len, case.opt.dict);
            if r_in.pct(2) && matches!(case.fmt.as_str(), "lzma2" | "xz") {
                // text / > 128 KiB of noise / short text: uncompressed chunks in the middle and a
                // state-reset chunk (control 0xA0, 0xA1...) for the tail
                case.input = simcore::case::sandwich_input(&mut r_in);
                if case.opt.mode == 1 && case.opt.nice > 64 {
                    case.opt.depth = 4;
                }
            }
            let len = case.input.len;
            histories(&mut case, &mut r_ops, &mut r_f, len);
        }
        "rt.codec.bias" | "rt.container.bias" => {
            let len = biased_len(&mut r_in, if big { 300_000 } else { 60_000 }, &[8192, 70000]);
            let fmts: &[&str] = if scen == "rt.codec.bias" { &["lzma", "lzma2", "lzma2"] } else { &["lzip", "xz"] };
            optgen::random_format(&mut r_opt, &mut case, fmts, len);
            case.input = random_input(&mut r_in, len.max(16), case.opt.dict);
            let l = case.input.len;
            histories(&mut case, &mut r_ops, &mut r_f, l);
            case.sink_policy = IoPolicy::default();
            // renormalisation happens after k more positions
            let k = r_in.range(1, case.input.len as u64 + 8) as i64;
            case.set("bias_k", k);
        }
        "rt.codec.big" | "rt.container.big" => {
            // long inputs against small dictionaries: window moves, 2 MiB / 64 KiB chunk limits
            let len = match r_in.below(6) {
                0 => r_in.urange(270_000, 400_000),
                1 => r_in.urange(600_000, 1_000_000),
                2 => (2 << 20) + r_in.urange(0, 70000) - 35000,
                _ => r_in.urange(100_000, if big { 6_000_000 } else { 1_500_000 }),
            };
            let fmts: &[&str] = if scen == "rt.codec.big" { &["lzma", "lzma2", "lzma2"] } else { &["lzip", "xz"] };
            optgen::random_format(&mut r_opt, &mut case, fmts, len);
            case.opt.dict = *r_opt.pick(&[4096u32, 4096, 8192, 65536, 1 << 20]);
            case.opt.preset = None;
            if case.opt.nice > 64 && case.opt.mode == 1 {
                case.opt.depth = 4; // keep the normal-mode optimiser affordable
            }
            let class = *r_in.pick(&["random", "random", "incomp_then_comp", "mixed", "far_repeat", "text", "zero", "code", "sandwich"]);
            case.input = random_input(&mut r_in, len, case.opt.dict);
            case.input.class = class.into();
            if class == "incomp_then_comp" {
                case.input.p1 = r_in.range(20, 95);
            }
            if class == "sandwich" {
                case.input.p1 = r_in.range(1000, 60_000);
                case.input.p2 = (len as u64).saturating_sub(case.input.p1 + r_in.range(1, 120_000));
            }
            case.wops = random_wops(&mut r_ops, len, true, 12);
            case.rbufs = vec![65536];
        }
        "history.write" | "history.read" => {
            let len = biased_len(&mut r_in, if big { 120_000 } else { 30_000 }, &[4096, 8192, 65536]);
            optgen::random_format(&mut r_opt, &mut case, all, len);
            case.input = random_input(&mut r_in, len, case.opt.dict);
            case.set("h_seed", (r_ops.next_u64() >> 1) as i64);
            case.set("histories", if big { 12 } else { 5 });
        }
        "determ.repeat" | "determ.partition" => {
            let len = biased_len(&mut r_in, if big { 200_000 } else { 40_000 }, &[4096, 8192, 65536]);
            optgen::random_format(&mut r_opt, &mut case, &["lzma", "lzma2", "xz", "lzip"], len);
            case.input = random_input(&mut r_in, len, case.opt.dict);
            case.set("h_seed", (r_ops.next_u64() >> 1) as i64);
            if scen == "determ.partition" && (case.fmt == "lzma2" || case.fmt == "xz") {
                case.opt.unit = None;
            }
        }
        "exact" => {
            let len = biased_len(&mut r_in, if big { 100_000 } else { 20_000 }, &[4096, 65536]);
            optgen::random_format(&mut r_opt, &mut case, &["lzma", "lzma", "lzma2", "xz"], len);
            if case.fmt == "lzma" && case.knob("marker") == 0 && case.knob("hdr") == 0 {
                // raw without marker: the reader must be given the size (that is the framing)
                case.set("sized", 1);
            }
            // The property speaks of "end marker, or declared size without marker": a stream that
            // has a marker AND whose size the reader is told is neither (the reader stops at the
            // size and legitimately leaves the marker unread).
            case.set("reader_knows_size", 0);
            case.input = random_input(&mut r_in, len, case.opt.dict);
            case.rbufs = random_rbufs(&mut r_ops);
            case.src_policy = if r_f.pct(40) { benign_policy(&mut r_f) } else { IoPolicy::default() };
            case.set("trailer", r_in.below(4) as i64); // 0 nothing, 1 zeros, 2 another stream, 3 random
            case.set("trailer_len", r_in.range(1, 300) as i64);
            case.set("multi", 0);
        }
        "sizes" => {
            let len = biased_len(&mut r_in, if big { 200_000 } else { 50_000 }, &[4096, 8192, 16384]);
            optgen::random_format(&mut r_opt, &mut case, &["xz", "lzip", "lzma"], len);
            case.input = random_input(&mut r_in, len, case.opt.dict);
            case.opt.dict = *r_opt.pick(&[4096u32, 4096, 5000, 8192]);
            if case.fmt != "lzma" {
                let d = case.opt.dict as u64;
                case.opt.unit = Some(*r_opt.pick(&[1u64, d, d + 1, d + 777, 3 * d, (len as u64 / 3).max(1)]));
                case.wops = match r_ops.below(3) {
                    0 => vec![WOp::W(len)],
                    1 => (0..len.min(4000)).map(|_| WOp::W(r_ops.urange(1, 40))).collect(),
                    _ => random_wops(&mut r_ops, len, false, 40),
                };
            } else {
                case.set("hdr", r_opt.below(2) as i64);
                case.set("marker", r_opt.below(2) as i64);
                case.set("sized", 1);
                case.set("size_delta", *r_opt.pick(&[0i64, 0, -1, 1, -(len as i64), 1000]));
                case.opt.preset = None;
                case.wops = random_wops(&mut r_ops, len, false, 20);
            }
        }
        "concat.xz" | "concat.lzip" => {
            let n = r_in.urange(1, if case.scen == "concat.xz" { 5 } else { 8 });
            case.fmt = if scen == "concat.xz" { "xz".into() } else { "lzip".into() };
            case.set("streams", n as i64);
            case.set("sub_seed", (r_in.next_u64() >> 1) as i64);
            case.set("multi", if r_ops.pct(80) { 1 } else { 0 });
            // padding pattern: per gap a number of zero bytes
            case.set("pad_seed", (r_in.next_u64() >> 1) as i64);
            case.set("bad_padding", if r_f.pct(25) { 1 } else { 0 });
            // multi-stream decoding disabled: what follows the first stream is not ours to judge
            case.set("garbage_after_first", if r_f.pct(40) { 1 } else { 0 });
            case.rbufs = random_rbufs(&mut r_ops);
            case.src_policy = if r_f.pct(50) { benign_policy(&mut r_f) } else { IoPolicy::default() };
            case.input = InputSpec::new("text", if big { 20000 } else { 6000 }, r_in.next_u64());
        }
        _ => {}
    }
    case
}

pub fn exec(case: &Case, keep_log: bool) -> RunResult {
    let mut ctx = Ctx::new(keep_log);
    let data = case.input.gen();
    ctx.ev("input_len", data.len() as u64);
    let v = match case.scen.as_str() {
        "rt.codec" | "rt.container" | "rt.codec.big" | "rt.container.big" => roundtrip_scen(case, &data, &mut ctx),
        "rt.codec.bias" | "rt.container.bias" => bias_scen(case, &data, &mut ctx),
        "history.write" => history_write(case, &data, &mut ctx),
        "history.read" => history_read(case, &data, &mut ctx),
        "determ.repeat" => determ_repeat(case, &data, &mut ctx),
        "determ.partition" => determ_partition(case, &data, &mut ctx),
        "exact" => exact(case, &data, &mut ctx),
        "sizes" => sizes(case, &data, &mut ctx),
        "concat.xz" | "concat.lzip" => concat(case, &data, &mut ctx),
        _ => None,
    };
    codec::take_probes(&mut ctx);
    ctx.finish(v)
}

pub struct Encoded {
    pub bytes: Vec<u8>,
    pub stats: simcore::io::IoStats,
}

/// Encodes through a SimSink following the case's history. A writer error or panic is a
/// violation of the round-trip properties (in-range options, benign sink).
pub fn encode_sim(case: &Case, data: &[u8]) -> Result<Encoded, Violation> {
    let comp = writer_component(case);
    let sink = SimSink::new(&case.sink_policy, &case.sink_faults);
    let (out, stats) = sink.handle();
    let r = guarded(|| codec::encode_to(case, data, sink));
    let bytes = out.lock().unwrap().clone();
    let st = stats.lock().unwrap().clone();
    match r {
        Ok(Ok(())) => Ok(Encoded { bytes, stats: st }),
        Ok(Err((stage, e))) => Err(Violation::new("writer-error", comp, format!("{stage}:{:?}:{}", e.kind(), e), format!("writer failed with in-range options on a benign sink at {stage}: {e}"))),
        Err((loc, msg)) => Err(classify_panic(comp, &loc, &msg)),
    }
}

fn check_decode(case: &Case, stream: &Arc<Vec<u8>>, data: &[u8], ctx: &mut Ctx, what: &str) -> Option<Violation> {
    let comp = reader_component(case);
    let d = decode(case, stream, &case.src_policy, &case.src_faults, data.len(), data.len() + (1 << 20), ctx.keep_log);
    ctx.absorb("source", &d.stats);
    ctx.bytes("decoded", &d.out);
    universal_decode_violation(case, &d).or_else(|| match &d.end {
        End::Eof if d.out == data => None,
        End::Eof => Some(Violation::new("roundtrip-mismatch", comp, what, format!("decoded {} bytes, expected {}, first difference at {}", d.out.len(), data.len(), first_diff(&d.out, data)))),
        End::Err(k, m) => Some(Violation::new("valid-stream-rejected", comp, format!("{k:?}:{m}"), format!("the reader rejects what the writer produced after {} of {} bytes: {m}", d.out.len(), data.len()))),
        _ => None,
    })
}

fn lzma2_structure(case: &Case, bytes: &[u8]) -> Option<Violation> {
    if case.fmt != "lzma2" {
        return None;
    }
    match parsers::lzma2_chunks(bytes) {
        Ok((chunks, Some(end))) => {
            if end != bytes.len() {
                return Some(Violation::new("malformed-output", "LZMA2Writer", "bytes-after-terminator", format!("{} bytes after the terminator", bytes.len() - end)));
            }
            let has_preset = case.opt.preset.as_ref().map(|p| p.len > 0).unwrap_or(false);
            parsers::lzma2_wellformed(&chunks, has_preset).err().map(|e| Violation::new("malformed-output", "LZMA2Writer", "chunk-structure", e))
        }
        Ok((_, None)) => Some(Violation::new("malformed-output", "LZMA2Writer", "no-terminator", "stream has no 0x00 terminator")),
        Err(e) => Some(Violation::new("malformed-output", "LZMA2Writer", "chunk-walk", e)),
    }
}

fn roundtrip_scen(case: &Case, data: &[u8], ctx: &mut Ctx) -> Option<Violation> {
    let enc = match encode_sim(case, data) {
        Ok(e) => e,
        Err(v) => return Some(v),
    };
    ctx.absorb("sink", &enc.stats);
    ctx.bytes("stream", &enc.bytes);
    structure_reach(ctx, &case.fmt, &enc.bytes);
    ctx.metric("bytes_in", data.len() as u64);
    ctx.nontrivial = !data.is_empty();
    if let Some(v) = lzma2_structure(case, &enc.bytes) {
        return Some(v);
    }
    check_decode(case, &Arc::new(enc.bytes), data, ctx, "roundtrip")
}

fn cyclic_size(case: &Case) -> i64 {
    let d = if case.fmt == "lzip" { case.opt.dict.clamp(4096, 512 << 20) } else { case.opt.dict };
    d as i64 + 1
}

fn bias_scen(case: &Case, data: &[u8], ctx: &mut Ctx) -> Option<Violation> {
    lz::verif::set_pos_bias(0);
    let plain = match encode_sim(case, data) {
        Ok(e) => e,
        Err(v) => return Some(v),
    };
    let k = case.knob_or("bias_k", 1).max(1);
    let bias = 0x7FFF_FFFFi64 - cyclic_size(case) - k;
    lz::verif::set_pos_bias(bias as i32);
    let biased = encode_sim(case, data);
    lz::verif::set_pos_bias(0);
    let biased = match biased {
        Ok(e) => e,
        Err(mut v) => {
            v.detail = format!("with match finder positions starting {k} before 2^31-1: {}", v.detail);
            return Some(v);
        }
    };
    ctx.fire("position_jump", 1);
    ctx.bytes("stream", &biased.bytes);
    ctx.nontrivial = data.len() as i64 > k;
    if biased.bytes != plain.bytes {
        return Some(Violation::new("renormalisation-changes-output", writer_component(case), fmt_tag(case), format!("compressed bytes differ when the 31-bit positions wrap after {k} bytes: {} vs {} bytes, first difference at {}", biased.bytes.len(), plain.bytes.len(), first_diff(&biased.bytes, &plain.bytes))));
    }
    check_decode(case, &Arc::new(biased.bytes), data, ctx, "after-renormalisation")
}

fn history(rng: &mut Rng, i: usize, len: usize) -> Vec<WOp> {
    match i {
        0 => vec![WOp::W(len)],
        1 if len <= 20000 => (0..len).map(|_| WOp::W(1)).collect(),
        2 => {
            let first = len - len.min(rng.urange(0, 30));
            let mut v = vec![WOp::W(first)];
            v.extend((0..len - first).map(|_| WOp::W(1)));
            v
        }
        _ => random_wops(rng, len, true, 60),
    }
}

fn history_write(case: &Case, data: &[u8], ctx: &mut Ctx) -> Option<Violation> {
    let mut rng = Rng::new(case.knob("h_seed") as u64);
    let n = case.knob_or("histories", 5) as usize;
    let only = case.knob_or("only", -1);
    for i in 0..n {
        let wops = history(&mut rng, i, data.len());
        if only >= 0 && only != i as i64 {
            continue;
        }
        ctx.evals += 1;
        let mut c = case.clone();
        c.wops = wops;
        let enc = match encode_sim(&c, data) {
            Ok(e) => e,
            Err(v) => {
                ctx.pin.insert("only".into(), i as i64);
                return Some(v);
            }
        };
        ctx.steps += enc.stats.calls;
        ctx.ev("history_ops", c.wops.len() as u64);
        if let Some(v) = check_decode(&c, &Arc::new(enc.bytes), data, ctx, "write-history") {
            ctx.pin.insert("only".into(), i as i64);
            let mut v = v;
            v.detail = format!("history {i} ({} ops): {}", c.wops.len(), v.detail);
            return Some(v);
        }
    }
    ctx.distinct_sub = ctx.evals;
    ctx.nontrivial = !data.is_empty();
    None
}

fn history_read(case: &Case, data: &[u8], ctx: &mut Ctx) -> Option<Violation> {
    let stream = match prepare_stream(case, data) {
        Ok(s) => Arc::new(s),
        Err(_) => {
            ctx.metric("skipped_writer_failed", 1);
            return None;
        }
    };
    let comp = reader_component(case);
    let one = decode(case, &stream, &IoPolicy::default(), &[], data.len(), data.len() + (1 << 20), false);
    if !matches!(one.end, End::Eof) || one.out != data {
        // the plain round trip is broken: C01/C02 report that
        ctx.metric("skipped_roundtrip_broken", 1);
        return None;
    }
    let mut rng = Rng::new(case.knob("h_seed") as u64);
    let n = case.knob_or("histories", 5) as usize;
    let only = case.knob_or("only", -1);
    for i in 0..n {
        let rb: Vec<u32> = match i {
            0 => vec![1],
            1 => vec![0, 1, 0, 7],
            2 => vec![3, 0, 4097, 0, 0, 2],
            _ => {
                let k = rng.urange(1, 8);
                (0..k).map(|_| *rng.pick(&[0u32, 0, 1, 2, 3, 5, 7, 13, 100, 4095, 4096, 4097, 65536, 1 << 20])).collect()
            }
        };
        if rb.iter().all(|&x| x == 0) {
            continue;
        }
        if only >= 0 && only != i as i64 {
            continue;
        }
        ctx.evals += 1;
        let mut c = case.clone();
        c.rbufs = rb.clone();
        let d = decode(&c, &stream, &IoPolicy::default(), &[], data.len(), data.len() + (1 << 20), false);
        ctx.steps += d.stats.calls;
        let v = universal_decode_violation(&c, &d).or_else(|| match &d.end {
            End::Eof if d.out == data => None,
            End::Eof => Some(Violation::new("read-history-changes-bytes", comp, "bytes", format!("buffer sizes {rb:?}: {} bytes, expected {}, first difference at {}", d.out.len(), data.len(), first_diff(&d.out, data)))),
            End::Err(k, m) => Some(Violation::new("read-history-error", comp, format!("{k:?}:{m}"), format!("buffer sizes {rb:?}: reader fails after {} of {} bytes: {m}", d.out.len(), data.len()))),
            _ => None,
        });
        if let Some(v) = v {
            ctx.pin.insert("only".into(), i as i64);
            return Some(v);
        }
    }
    ctx.distinct_sub = ctx.evals;
    ctx.nontrivial = !data.is_empty();
    None
}

fn determ_repeat(case: &Case, data: &[u8], ctx: &mut Ctx) -> Option<Violation> {
    let mut first: Option<Vec<u8>> = None;
    for (i, junk) in [0xAAu8, 0x55, 0xFF].iter().enumerate() {
        simcore::alloc::set_junk(*junk);
        let r = encode_sim(case, data);
        simcore::alloc::set_junk(0);
        let enc = match r {
            Ok(e) => e,
            Err(_) => {
                ctx.metric("skipped_writer_failed", 1);
                return None;
            }
        };
        ctx.steps += enc.stats.calls;
        match &first {
            None => first = Some(enc.bytes),
            Some(f) => {
                if *f != enc.bytes {
                    return Some(Violation::new("nondeterministic-output", writer_component(case), fmt_tag(case), format!("run {i} with fresh memory filled with {junk:#x}: {} vs {} bytes, first difference at {}", enc.bytes.len(), f.len(), first_diff(&enc.bytes, f))));
                }
            }
        }
    }
    ctx.bytes("stream", first.as_deref().unwrap_or(&[]));
    ctx.fire("junk_filled_allocations", 3);
    ctx.nontrivial = !data.is_empty();
    None
}

fn determ_partition(case: &Case, data: &[u8], ctx: &mut Ctx) -> Option<Violation> {
    let mut rng = Rng::new(case.knob("h_seed") as u64);
    let mut first: Option<Vec<u8>> = None;
    for i in 0..4 {
        let mut wops = history(&mut rng, if i == 3 { 9 } else { i }, data.len());
        // a flush legitimately ends an LZMA2 chunk; empty writes are allowed
        wops.retain(|o| !matches!(o, WOp::F));
        let mut c = case.clone();
        c.wops = wops;
        let enc = match encode_sim(&c, data) {
            Ok(e) => e,
            Err(_) => {
                ctx.metric("skipped_writer_failed", 1);
                return None;
            }
        };
        ctx.steps += enc.stats.calls;
        ctx.ev("partition_ops", c.wops.len() as u64);
        match &first {
            None => first = Some(enc.bytes),
            Some(f) => {
                if *f != enc.bytes {
                    return Some(Violation::new("partition-changes-output", writer_component(case), fmt_tag(case), format!("write partition {i} ({} ops) gives {} bytes, the single write {} bytes, first difference at {}", c.wops.len(), enc.bytes.len(), f.len(), first_diff(&enc.bytes, f))));
                }
            }
        }
    }
    ctx.bytes("stream", first.as_deref().unwrap_or(&[]));
    ctx.nontrivial = data.len() > 1;
    None
}

/// C16: the source must have handed out exactly the stream's bytes when the reader reports the
/// end, and a second reader on the same source must decode what follows.
fn exact(case: &Case, data: &[u8], ctx: &mut Ctx) -> Option<Violation> {
    let stream = match prepare_stream(case, data) {
        Ok(s) => s,
        Err(_) => {
            ctx.metric("skipped_writer_failed", 1);
            return None;
        }
    };
    let comp = reader_component(case);
    let tl = case.knob_or("trailer_len", 16) as usize;
    let second_data: Vec<u8> = InputSpec::new("text", 300, case.seed).gen();
    let trailer: Vec<u8> = match case.knob("trailer") {
        0 => vec![],
        1 => vec![0u8; tl],
        2 => match prepare_stream(case, &second_data) {
            Ok(s) => s,
            Err(_) => vec![],
        },
        _ => {
            let mut v = vec![0u8; tl];
            Rng::new(case.seed ^ 77).fill(&mut v);
            v
        }
    };
    let mut all = stream.clone();
    all.extend_from_slice(&trailer);
    ctx.bytes("stream", &all);
    structure_reach(ctx, &case.fmt, &stream);
    let src = SimSource::new(all, &case.src_policy, &[]);
    let stats = src.stats();
    let sizes = case.read_sizes();
    let total = data.len();
    // The reader types are concrete here because `into_inner` is part of the check.
    enum Out {
        Done(Vec<u8>, ReadEnd, Option<(Vec<u8>, ReadEnd)>),
    }
    let second_case = case.clone();
    let second_len = second_data.len();
    let want_second = case.knob("trailer") == 2 && !trailer.is_empty();
    let r = guarded(|| {
        let mut out = Vec::new();
        macro_rules! run {
            ($rd:expr) => {{
                let mut rd = $rd;
                let mut end = read_all(&mut rd, &sizes, total + (1 << 20), &mut out);
                // end of stream is final: further reads return Ok(0) and touch nothing
                if matches!(end, ReadEnd::Eof) {
                    let mut extra = [0u8; 64];
                    for _ in 0..2 {
                        match rd.read(&mut extra) {
                            Ok(0) => {}
                            Ok(n) => {
                                end = ReadEnd::Err(std::io::Error::new(std::io::ErrorKind::Other, format!("VERIF: read after end of stream returned {n} bytes")));
                                break;
                            }
                            Err(e) if e.kind() == std::io::ErrorKind::Interrupted => {}
                            Err(e) => {
                                end = ReadEnd::Err(std::io::Error::new(std::io::ErrorKind::Other, format!("VERIF: read after end of stream failed: {e}")));
                                break;
                            }
                        }
                    }
                }
                let consumed_now = stats.lock().unwrap().bytes;
                let inner = rd.into_inner();
                let second = if want_second && matches!(end, ReadEnd::Eof) {
                    let mut o2 = Vec::new();
                    match codec::make_reader(&second_case, inner, second_len) {
                        Ok(mut r2) => {
                            let e2 = read_all(&mut r2, &[65536], second_len + (1 << 20), &mut o2);
                            Some((o2, e2))
                        }
                        Err(e) => Some((o2, ReadEnd::Err(e))),
                    }
                } else {
                    None
                };
                (Out::Done(out, end, second), consumed_now)
            }};
        }
        let preset = case.opt.preset.as_ref().map(|p| p.gen());
        match case.fmt.as_str() {
            "lzma" => {
                let rd = if case.knob("hdr") != 0 {
                    lz::LZMAReader::new_mem_limit(src, u32::MAX, preset.as_deref())
                } else {
                    let size = if case.knob("marker") != 0 && case.knob("reader_knows_size") == 0 { u64::MAX } else { total as u64 };
                    lz::LZMAReader::new(src, size, case.opt.lc, case.opt.lp, case.opt.pb, case.opt.dict, preset.as_deref())
                };
                match rd {
                    Ok(rd) => Ok(run!(rd)),
                    Err(e) => Err(e),
                }
            }
            "lzma2" => Ok(run!(lz::LZMA2Reader::new(src, case.opt.dict, preset.as_deref()))),
            _ => Ok(run!(lz::XZReader::new(src, false))),
        }
    });
    let st = stats.lock().unwrap().clone();
    ctx.absorb("source", &st);
    ctx.nontrivial = !trailer.is_empty();
    let (out, end, second, consumed) = match r {
        Err((loc, msg)) => return Some(classify_panic(comp, &loc, &msg)),
        Ok(Err(e)) => return Some(Violation::new("valid-stream-rejected", comp, format!("{:?}", e.kind()), format!("reader construction failed: {e}"))),
        Ok(Ok((Out::Done(o, e, s), c))) => (o, e, s, c as usize),
    };
    match end {
        ReadEnd::Eof => {}
        ReadEnd::Err(e) => {
            return Some(Violation::new("trailing-data-breaks-decode", comp, format!("{:?}:{e}", e.kind()), format!("valid stream followed by {} trailing bytes (kind {}) failed after {} of {} bytes: {e}", trailer.len(), case.knob("trailer"), out.len(), data.len())))
        }
        ReadEnd::Overflow => return Some(Violation::new("unbounded-output", comp, "output-cap", "more output than the stream holds")),
        ReadEnd::Spin => return Some(Violation::new("hang", comp, "sticky-interrupted", "reader keeps answering Interrupted")),
    }
    if out != data {
        return Some(Violation::new("roundtrip-mismatch", comp, "with-trailer", format!("decoded {} bytes, expected {}, first difference at {}", out.len(), data.len(), first_diff(&out, data))));
    }
    if consumed != stream.len() {
        return Some(Violation::new("inexact-consumption", comp, fmt_tag(case), format!("stream is {} bytes, the reader pulled {} bytes from the source before reporting the end ({} trailing bytes of kind {} follow)", stream.len(), consumed, trailer.len(), case.knob("trailer"))));
    }
    if let Some((o2, e2)) = second {
        if !matches!(e2, ReadEnd::Eof) || o2 != second_data {
            return Some(Violation::new("following-stream-unreadable", comp, fmt_tag(case), format!("a second reader on the same source after into_inner() got {} of {} bytes, end {e2:?}", o2.len(), second_data.len())));
        }
        ctx.fire("second_stream_decoded", 1);
    }
    None
}

/// C18 (single-threaded part).
fn sizes(case: &Case, data: &[u8], ctx: &mut Ctx) -> Option<Violation> {
    let comp = writer_component(case);
    if case.fmt == "lzma" {
        // expected size handling
        let delta = case.knob("size_delta");
        let sink = SimSink::plain();
        let (out, _) = sink.handle();
        let declared = (data.len() as i64 + delta).max(0) as u64;
        let r = guarded(|| codec::encode_to(case, data, sink));
        ctx.nontrivial = true;
        ctx.ev("delta", delta as u64);
        return match r {
            Err((loc, msg)) => Some(classify_panic(comp, &loc, &msg)),
            Ok(Ok(())) => {
                if declared != data.len() as u64 {
                    return Some(Violation::new("expected-size-ignored", comp, "finish", format!("declared {declared} bytes, wrote {}, finish succeeded", data.len())));
                }
                if case.knob("hdr") != 0 {
                    let bytes = out.lock().unwrap().clone();
                    match parsers::lzma_header(&bytes) {
                        Some(h) if h.size == data.len() as u64 => None,
                        Some(h) => Some(Violation::new("header-size-wrong", comp, "header", format!("header declares {} bytes, {} were written", h.size, data.len()))),
                        None => Some(Violation::new("header-size-wrong", comp, "header", "no header")),
                    }
                } else {
                    None
                }
            }
            Ok(Err((stage, e))) => {
                if declared == data.len() as u64 {
                    Some(Violation::new("writer-error", comp, format!("{stage}:{:?}", e.kind()), format!("declared size equals bytes written but the writer failed: {e}")))
                } else if declared < data.len() as u64 && stage == "finish" {
                    Some(Violation::new("expected-size-ignored", comp, "write", format!("declared {declared} bytes, all {} bytes were accepted by write, only finish failed", data.len())))
                } else {
                    None
                }
            }
        };
    }
    let enc = match encode_sim(case, data) {
        Ok(e) => e,
        Err(_) => {
            ctx.metric("skipped_writer_failed", 1);
            return None;
        }
    };
    ctx.bytes("stream", &enc.bytes);
    structure_reach(ctx, &case.fmt, &enc.bytes);
    let limit = case.opt.unit.unwrap_or(u64::MAX).max(if case.fmt == "lzip" { case.opt.dict.clamp(4096, 512 << 20) } else { case.opt.dict } as u64);
    ctx.nontrivial = data.len() as u64 > limit;
    if case.fmt == "xz" {
        let streams = match parsers::xz_file(&enc.bytes) {
            Ok(s) => s,
            Err(_) => {
                // malformed container: C02/C03 report that
                ctx.metric("skipped_unparsable", 1);
                return None;
            }
        };
        let mut total = 0u64;
        for (i, b) in streams.iter().flat_map(|s| s.blocks.iter()).enumerate() {
            total += b.uncompressed_size;
            if b.uncompressed_size > limit {
                return Some(Violation::new("block-size-exceeded", comp, "xz", format!("block {i} holds {} bytes, configured block size {} (dict {})", b.uncompressed_size, case.opt.unit.unwrap_or(0), case.opt.dict)));
            }
        }
        if total != data.len() as u64 {
            return Some(Violation::new("index-size-wrong", comp, "xz", format!("index records sum to {total} bytes, {} were written", data.len())));
        }
        ctx.metric("blocks", streams.iter().map(|s| s.blocks.len() as u64).sum());
    } else {
        let members = match parsers::lzip_members(&enc.bytes) {
            Some(m) => m,
            None => {
                ctx.metric("skipped_unparsable", 1);
                return None;
            }
        };
        let mut total = 0u64;
        for (i, m) in members.iter().enumerate() {
            total += m.data_size;
            if m.data_size > limit {
                return Some(Violation::new("member-size-exceeded", comp, "lzip", format!("member {i} holds {} bytes, configured member size {} (dict {})", m.data_size, case.opt.unit.unwrap_or(0), case.opt.dict)));
            }
        }
        if total != data.len() as u64 {
            return Some(Violation::new("trailer-size-wrong", comp, "lzip", format!("member trailers sum to {total} bytes, {} were written", data.len())));
        }
        ctx.metric("members", members.len() as u64);
    }
    None
}

/// C12: concatenated XZ streams with stream padding / concatenated LZIP members.
fn concat(case: &Case, base: &[u8], ctx: &mut Ctx) -> Option<Violation> {
    let n = case.knob_or("streams", 2) as usize;
    let mut rng = Rng::new(case.knob("sub_seed") as u64);
    let mut prng = Rng::new(case.knob("pad_seed") as u64);
    let xz = case.fmt == "xz";
    let mut file = Vec::new();
    let mut expect_all = Vec::new();
    let mut expect_first = Vec::new();
    let bad = case.knob("bad_padding") != 0 && xz;
    // the malformed padding may also be the one behind the last stream
    let bad_gap = prng.urange(0, n - 1);
    let multi = case.knob_or("multi", 1) != 0 || !xz;
    let garbage = xz && !multi && case.knob("garbage_after_first") != 0;
    let mut made_bad = false;
    for i in 0..n {
        let mut sub = Case { fmt: case.fmt.clone(), ..Default::default() };
        sub.opt = optgen::lzma_opts(&mut rng, true);
        if xz {
            optgen::xz_extras(&mut rng, &mut sub, 3000);
        } else {
            optgen::lzip_extras(&mut rng, &mut sub, 3000);
        }
        let len = if rng.pct(20) || base.len() < 2 { 0 } else { rng.urange(1, base.len() - 1) };
        let off = rng.urange(0, base.len() - len);
        let piece = &base[off..off + len];
        let s = match prepare_stream(&sub, piece) {
            Ok(s) => s,
            Err(_) => {
                ctx.metric("skipped_writer_failed", 1);
                return None;
            }
        };
        // each part must be readable on its own, otherwise C02 is the one to report
        let own = decode(&sub, &Arc::new(s.clone()), &IoPolicy::default(), &[], piece.len(), piece.len() + (1 << 20), false);
        if !matches!(own.end, End::Eof) || own.out != piece {
            ctx.metric("skipped_roundtrip_broken", 1);
            return None;
        }
        file.extend_from_slice(&s);
        expect_all.extend_from_slice(piece);
        if i == 0 {
            expect_first.extend_from_slice(piece);
        }
        if xz {
            // stream padding after this stream (also after the last one)
            if garbage && i == 0 {
                // single-stream mode: arbitrary bytes behind the first stream (an archive member,
                // malformed padding, ...) are neither consumed nor required
                let g = prng.urange(1, 40);
                let mut junk = vec![0u8; g];
                prng.fill(&mut junk);
                if prng.pct(50) {
                    let z = prng.urange(1, 7).min(g);
                    junk[..z].iter_mut().for_each(|b| *b = 0);
                }
                file.extend_from_slice(&junk);
                ctx.fire("garbage_behind_first_stream", 1);
                break;
            }
            let pad = if bad && i == bad_gap {
                made_bad = true;
                *prng.pick(&[1usize, 2, 3, 5, 6, 7])
            } else {
                *prng.pick(&[0usize, 0, 4, 8, 12, 16])
            };
            file.extend(std::iter::repeat(0u8).take(pad));
        }
    }
    ctx.bytes("file", &file);
    ctx.metric("streams", n as u64);
    ctx.nontrivial = n > 1;
    let comp = reader_component(case);
    let d = decode(case, &Arc::new(file), &case.src_policy, &[], expect_all.len(), expect_all.len() + (1 << 20), ctx.keep_log);
    ctx.absorb("source", &d.stats);
    if let Some(v) = universal_decode_violation(case, &d) {
        return Some(v);
    }
    if made_bad && multi {
        ctx.fire("malformed_stream_padding", 1);
        return match &d.end {
            End::Err(..) => None,
            _ => Some(Violation::new("bad-padding-accepted", comp, "xz", format!("stream padding that is not a multiple of four bytes was accepted ({} bytes decoded)", d.out.len()))),
        };
    }
    let expect: &[u8] = if multi { &expect_all } else { &expect_first };
    match &d.end {
        End::Eof if d.out == expect => None,
        End::Eof => Some(Violation::new("concat-mismatch", comp, if multi { "multi" } else { "single" }, format!("{n} parts: decoded {} bytes, expected {}, first difference at {}", d.out.len(), expect.len(), first_diff(&d.out, expect)))),
        End::Err(k, m) => Some(Violation::new("concat-rejected", comp, format!("{k:?}:{m}"), format!("{n} valid parts (multi={multi}) rejected after {} of {} bytes: {m}", d.out.len(), expect.len()))),
        _ => None,
    }
}

#[allow(dead_code)]
fn unused(_: &dyn Read) {}
