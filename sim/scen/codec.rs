//! Adapter between a `Case` and the library's writers and readers. `crate::lz` is the library
//! instance of the including binary.

use crate::lz;
use simcore::case::{Case, Opts, WOp};
use simcore::io::{flush_retry, write_all_retry};
use std::io::{self, Read, Write};
use std::num::NonZeroU64;

pub fn lzma_options(o: &Opts) -> lz::LZMAOptions {
    let mut l = lz::LZMAOptions::new(
        o.dict,
        o.lc,
        o.lp,
        o.pb,
        if o.mode == 0 { lz::EncodeMode::Fast } else { lz::EncodeMode::Normal },
        o.nice,
        if o.mf == 0 { lz::MFType::HC4 } else { lz::MFType::BT4 },
        o.depth,
    );
    l.preset_dict = o.preset.as_ref().map(|p| p.gen());
    l
}

pub fn lzma2_options(o: &Opts) -> lz::LZMA2Options {
    lz::LZMA2Options { lzma_options: lzma_options(o), chunk_size: o.unit.and_then(NonZeroU64::new) }
}

pub fn lzip_options(o: &Opts) -> lz::LZIPOptions {
    lz::LZIPOptions { lzma_options: lzma_options(o), member_size: o.unit.and_then(NonZeroU64::new) }
}

pub fn check_type(c: u8) -> lz::CheckType {
    match c {
        0 => lz::CheckType::None,
        1 => lz::CheckType::Crc32,
        4 => lz::CheckType::Crc64,
        _ => lz::CheckType::Sha256,
    }
}

pub fn filter_type(kind: u8) -> lz::FilterType {
    match kind {
        3 => lz::FilterType::Delta,
        4 => lz::FilterType::BcjX86,
        5 => lz::FilterType::BcjPPC,
        6 => lz::FilterType::BcjIA64,
        7 => lz::FilterType::BcjARM,
        8 => lz::FilterType::BcjARMThumb,
        9 => lz::FilterType::BcjSPARC,
        10 => lz::FilterType::BcjARM64,
        _ => lz::FilterType::BcjRISCV,
    }
}

pub fn xz_options(o: &Opts) -> lz::XZOptions {
    lz::XZOptions {
        lzma_options: lzma_options(o),
        check_type: check_type(o.check),
        block_size: o.unit.and_then(NonZeroU64::new),
        filters: o.filters.iter().map(|&(k, p)| lz::FilterConfig { filter_type: filter_type(k), property: p }).collect(),
    }
}

/// Alignment a BCJ start offset must have.
pub fn bcj_alignment(kind: u8) -> u32 {
    match kind {
        4 => 1,
        5 | 7 | 9 | 10 => 4,
        6 => 16,
        8 | 11 => 2,
        _ => 1,
    }
}

pub const BCJ_KINDS: &[u8] = &[4, 5, 6, 7, 8, 9, 10, 11];

pub fn bcj_name(kind: u8) -> &'static str {
    match kind {
        3 => "delta",
        4 => "x86",
        5 => "ppc",
        6 => "ia64",
        7 => "arm",
        8 => "armthumb",
        9 => "sparc",
        10 => "arm64",
        _ => "riscv",
    }
}

/// A writer that can be finished behind a box.
pub trait Enc: Write {
    fn finish_box(self: Box<Self>) -> io::Result<()>;
}

impl<W: Write> Enc for lz::LZMAWriter<W> {
    fn finish_box(self: Box<Self>) -> io::Result<()> {
        (*self).finish().map(|_| ())
    }
}
impl<W: Write> Enc for lz::LZMA2Writer<W> {
    fn finish_box(self: Box<Self>) -> io::Result<()> {
        (*self).finish().map(|_| ())
    }
}
impl<W: Write> Enc for lz::LZIPWriter<W> {
    fn finish_box(self: Box<Self>) -> io::Result<()> {
        (*self).finish().map(|_| ())
    }
}
impl<'a, W: Write + 'a> Enc for lz::XZWriter<'a, W> {
    fn finish_box(self: Box<Self>) -> io::Result<()> {
        (*self).finish().map(|_| ())
    }
}
impl<W: Write> Enc for lz::filter::bcj::BCJWriter<W> {
    fn finish_box(self: Box<Self>) -> io::Result<()> {
        let mut inner = (*self).into_inner();
        inner.flush()
    }
}
impl<W: Write> Enc for lz::filter::delta::DeltaWriter<W> {
    fn finish_box(self: Box<Self>) -> io::Result<()> {
        let mut inner = (*self).into_inner();
        inner.flush()
    }
}

pub fn component(fmt: &str, writer: bool) -> &'static str {
    match (fmt, writer) {
        ("lzma", true) => "LZMAWriter",
        ("lzma", false) => "LZMAReader",
        ("lzma2", true) => "LZMA2Writer",
        ("lzma2", false) => "LZMA2Reader",
        ("xz", true) => "XZWriter",
        ("xz", false) => "XZReader",
        ("lzip", true) => "LZIPWriter",
        ("lzip", false) => "LZIPReader",
        ("bcj", true) => "BCJWriter",
        ("bcj", false) => "BCJReader",
        ("delta", true) => "DeltaWriter",
        ("delta", false) => "DeltaReader",
        ("lzma2mt", true) => "LZMA2WriterMT",
        ("lzma2mt", false) => "LZMA2ReaderMT",
        ("lzipmt", true) => "LZIPWriterMT",
        ("lzipmt", false) => "LZIPReaderMT",
        ("bcj2", _) => "BCJ2Reader",
        (_, true) => "Writer",
        (_, false) => "Reader",
    }
}

pub fn bcj_writer<'a, W: Write + 'a>(kind: u8, w: W, start: usize) -> Box<dyn Enc + 'a> {
    use lz::filter::bcj::BCJWriter;
    Box::new(match kind {
        4 => BCJWriter::new_x86(w, start),
        5 => BCJWriter::new_ppc(w, start),
        6 => BCJWriter::new_ia64(w, start),
        7 => BCJWriter::new_arm(w, start),
        8 => BCJWriter::new_arm_thumb(w, start),
        9 => BCJWriter::new_sparc(w, start),
        10 => BCJWriter::new_arm64(w, start),
        _ => BCJWriter::new_riscv(w, start),
    })
}

pub fn bcj_reader<'a, R: Read + 'a>(kind: u8, r: R, start: usize) -> Box<dyn Read + 'a> {
    use lz::filter::bcj::BCJReader;
    Box::new(match kind {
        4 => BCJReader::new_x86(r, start),
        5 => BCJReader::new_ppc(r, start),
        6 => BCJReader::new_ia64(r, start),
        7 => BCJReader::new_arm(r, start),
        8 => BCJReader::new_arm_thumb(r, start),
        9 => BCJReader::new_sparc(r, start),
        10 => BCJReader::new_arm64(r, start),
        _ => BCJReader::new_riscv(r, start),
    })
}

/// Builds the writer the case describes. `total` is the number of bytes that will be written
/// (needed for the .lzma "declared size" framing).
///
/// lzma knobs: `hdr` (1 = .lzma header), `marker` (1 = end marker), `sized` (1 = expected size
/// passed to the writer). bcj/delta: `opt.filters[0]` is (kind, start offset / distance).
pub fn make_writer<'a, W: Write + 'a>(case: &Case, sink: W, total: usize) -> io::Result<Box<dyn Enc + 'a>> {
    let o = &case.opt;
    Ok(match case.fmt.as_str() {
        "lzma" => {
            let hdr = case.knob("hdr") != 0;
            let marker = case.knob("marker") != 0;
            let sized = case.knob("sized") != 0;
            let expected = if sized { Some((total as i64 + case.knob("size_delta")).max(0) as u64) } else { None };
            Box::new(lz::LZMAWriter::new(sink, &lzma_options(o), hdr, marker, expected)?)
        }
        "lzma2" => Box::new(lz::LZMA2Writer::new(sink, lzma2_options(o))),
        "xz" => Box::new(lz::XZWriter::new(sink, xz_options(o))?),
        "lzip" => Box::new(lz::LZIPWriter::new(sink, lzip_options(o))),
        "bcj" => {
            let (k, p) = o.filters.first().copied().unwrap_or((4, 0));
            bcj_writer(k, sink, p as usize)
        }
        "delta" => {
            let (_, p) = o.filters.first().copied().unwrap_or((3, 1));
            Box::new(lz::filter::delta::DeltaWriter::new(sink, p as usize))
        }
        other => return Err(io::Error::new(io::ErrorKind::Unsupported, format!("VERIF: unknown fmt {other}"))),
    })
}

/// Builds the matching reader. `total` = uncompressed length (for raw .lzma without marker).
pub fn make_reader<'a, R: Read + 'a>(case: &Case, src: R, total: usize) -> io::Result<Box<dyn Read + 'a>> {
    let o = &case.opt;
    let preset = o.preset.as_ref().map(|p| p.gen());
    Ok(match case.fmt.as_str() {
        "lzma" => {
            let hdr = case.knob("hdr") != 0;
            let marker = case.knob("marker") != 0;
            if hdr {
                Box::new(lz::LZMAReader::new_mem_limit(src, u32::MAX, preset.as_deref())?)
            } else {
                // raw stream: the reader is told the size unless only the marker ends it
                let size = if marker && case.knob("reader_knows_size") == 0 { u64::MAX } else { total as u64 };
                Box::new(lz::LZMAReader::new(src, size, o.lc, o.lp, o.pb, o.dict, preset.as_deref())?)
            }
        }
        "lzma2" => Box::new(lz::LZMA2Reader::new(src, o.dict, preset.as_deref())),
        "xz" => Box::new(lz::XZReader::new(src, case.knob_or("multi", 1) != 0)),
        "lzip" => Box::new(lz::LZIPReader::new(src)?),
        "bcj" => {
            let (k, p) = o.filters.first().copied().unwrap_or((4, 0));
            bcj_reader(k, src, p as usize)
        }
        "delta" => {
            let (_, p) = o.filters.first().copied().unwrap_or((3, 1));
            Box::new(lz::filter::delta::DeltaReader::new(src, p as usize))
        }
        other => return Err(io::Error::new(io::ErrorKind::Unsupported, format!("VERIF: unknown fmt {other}"))),
    })
}

/// Result of driving a writer through an operation history.
pub struct WriteRun {
    /// Err of the first failing operation, with its index (usize::MAX = finish, MAX-1 = new)
    pub error: Option<(usize, io::Error)>,
    /// bytes the writer accepted before the failure
    pub accepted: usize,
    pub ops_done: usize,
}

/// Applies the write history: each `W(n)` is a `write_all`-style loop over the next n bytes,
/// whatever is left after the last op is written in one more call, then `finish`.
pub fn drive_writer(w: &mut dyn Write, data: &[u8], wops: &[WOp]) -> WriteRun {
    let mut off = 0usize;
    let mut done = 0usize;
    for (i, op) in wops.iter().enumerate() {
        let r = match op {
            WOp::W(n) => {
                let n = (*n).min(data.len() - off);
                let r = write_all_retry(w, &data[off..off + n]);
                if r.is_ok() {
                    off += n;
                }
                r
            }
            WOp::F => flush_retry(w),
            WOp::E => match w.write(&[]) {
                Ok(0) => Ok(()),
                Ok(_) => Err(io::Error::new(io::ErrorKind::Other, "VERIF: empty write returned non-zero")),
                Err(e) if e.kind() == io::ErrorKind::Interrupted => Ok(()),
                Err(e) => Err(e),
            },
        };
        if let Err(e) = r {
            return WriteRun { error: Some((i, e)), accepted: off, ops_done: done };
        }
        done += 1;
    }
    if off < data.len() {
        if let Err(e) = write_all_retry(w, &data[off..]) {
            return WriteRun { error: Some((wops.len(), e)), accepted: off, ops_done: done };
        }
        off = data.len();
    }
    WriteRun { error: None, accepted: off, ops_done: done }
}

/// Encodes `data` as the case says into `sink`. Returns the first error (with a stage tag).
pub fn encode_to<W: Write>(case: &Case, data: &[u8], sink: W) -> Result<(), (String, io::Error)> {
    let mut w = make_writer(case, sink, data.len()).map_err(|e| ("new".to_string(), e))?;
    let run = drive_writer(&mut *w, data, &case.wops);
    if let Some((i, e)) = run.error {
        return Err((format!("op{i}"), e));
    }
    w.finish_box().map_err(|e| ("finish".to_string(), e))
}

/// Plain encode into a Vec with a single write (used to prepare streams for reader scenarios).
pub fn encode_vec(case: &Case, data: &[u8]) -> Result<Vec<u8>, (String, io::Error)> {
    let mut out = Vec::new();
    let mut c = case.clone();
    c.wops.clear();
    encode_to(&c, data, &mut out)?;
    Ok(out)
}

pub fn take_probes(ctx: &mut simcore::run::Ctx) {
    let p = lz::verif::take_probes();
    for (i, v) in p.iter().enumerate() {
        if *v > 0 {
            ctx.probe(lz::verif::PROBE_NAMES[i], *v);
        }
    }
}
