//! Seeded generation of in-range option vectors.


use simcore::case::{random_input, Case, InputSpec, Opts};
use simcore::rng::Rng;

pub const DICTS_SMALL: &[u32] = &[4096, 4096, 4097, 5000, 8192, 8192, 12288, 65535, 65536, 65537];

pub fn lzma_opts(rng: &mut Rng, lzma2_limits: bool) -> Opts {
    let mut o = Opts::default();
    o.dict = *rng.pick(DICTS_SMALL);
    if rng.pct(4) {
        o.dict = *rng.pick(&[1u32 << 20, (1 << 20) + 1, 3 << 19]);
    }
    if rng.pct(50) {
        o.lc = 3;
        o.lp = 0;
        o.pb = 2;
    } else {
        if lzma2_limits {
            o.lc = rng.range(0, 4) as u32;
            o.lp = rng.range(0, 4 - o.lc as u64) as u32;
        } else {
            o.lc = rng.range(0, 8) as u32;
            o.lp = rng.range(0, 4) as u32;
        }
        o.pb = rng.range(0, 4) as u32;
    }
    o.mode = rng.below(2) as u8;
    o.mf = rng.below(2) as u8;
    o.nice = match rng.below(5) {
        0 => 8,
        1 => 273,
        2 => rng.range(8, 20) as u32,
        _ => rng.range(8, 273) as u32,
    };
    o.depth = *rng.pick(&[0i32, 0, 0, 1, 4, 100, 1000]);
    o
}

/// Which .lzma framing: (hdr, marker, sized, reader_knows_size)
pub fn lzma_framing(rng: &mut Rng, case: &mut Case) {
    match rng.below(5) {
        0 => {
            // .lzma header, end marker, unknown size
            case.set("hdr", 1);
            case.set("marker", 1);
        }
        1 => {
            // .lzma header with declared size, no marker
            case.set("hdr", 1);
            case.set("sized", 1);
        }
        2 => {
            // raw with marker
            case.set("marker", 1);
        }
        3 => {
            // raw, size known to the reader only
            case.set("sized", 1);
        }
        _ => {
            // raw with marker and size known to the reader as well
            case.set("marker", 1);
            case.set("reader_knows_size", 1);
        }
    }
}

pub fn maybe_preset(rng: &mut Rng, case: &mut Case, pct: u64) {
    let allowed = case.fmt == "lzma2" || (case.fmt == "lzma" && case.knob("hdr") == 0);
    if allowed && rng.pct(pct) {
        let len = match rng.below(4) {
            0 => rng.urange(1, 64),
            1 => case.opt.dict as usize + rng.urange(0, 200),
            _ => rng.urange(1, case.opt.dict as usize),
        };
        let mut p = random_input(rng, len, case.opt.dict);
        if p.class == "empty" {
            p = InputSpec::new("text", len.max(1), 1);
        }
        case.opt.preset = Some(p);
    }
}

pub fn xz_extras(rng: &mut Rng, case: &mut Case, input_len: usize) {
    case.opt.check = *rng.pick(&[0u8, 1, 1, 4, 4, 10]);
    if rng.pct(40) {
        let d = case.opt.dict as u64;
        case.opt.unit = Some(match rng.below(5) {
            0 => 1,
            1 => d,
            2 => (input_len as u64 / 3).max(1),
            3 => input_len as u64 + 10,
            _ => d + rng.range(1, 5000),
        });
    }
    if rng.pct(40) {
        let n = rng.range(1, 3);
        for _ in 0..n {
            if rng.pct(40) {
                let any = rng.range(1, 256) as u32;
                case.opt.filters.push((3, *rng.pick(&[1u32, 2, 3, 4, 16, 255, 256, any])));
            } else {
                let k = *rng.pick(BCJ_KINDS);
                let a = bcj_alignment(k);
                let off = match rng.below(4) {
                    0 | 1 => 0,
                    2 => a * rng.range(1, 1000) as u32,
                    _ => a * rng.range(1, 1 << 20) as u32,
                };
                case.opt.filters.push((k, off));
            }
        }
    }
}

pub fn lzip_extras(rng: &mut Rng, case: &mut Case, input_len: usize) {
    case.opt.lc = 3;
    case.opt.lp = 0;
    case.opt.pb = 2;
    if rng.pct(45) {
        let d = case.opt.dict as u64;
        case.opt.unit = Some(match rng.below(5) {
            0 => 1,
            1 => d,
            2 => (input_len as u64 / 3).max(1),
            3 => input_len as u64 + 10,
            _ => d + rng.range(1, 5000),
        });
    }
}

/// A container/codec format with fitting options for a stream of about `len` input bytes.
pub fn random_format(rng: &mut Rng, case: &mut Case, formats: &[&str], len: usize) {
    let fmt = *rng.pick(formats);
    case.fmt = fmt.to_string();
    match fmt {
        "lzma" => {
            case.opt = lzma_opts(rng, false);
            lzma_framing(rng, case);
            maybe_preset(rng, case, 15);
        }
        "lzma2" => {
            case.opt = lzma_opts(rng, true);
            if rng.pct(30) {
                case.opt.unit = Some(*rng.pick(&[1u64, case.opt.dict as u64, case.opt.dict as u64 + 100, (len as u64 / 2).max(1)]));
            }
            maybe_preset(rng, case, 15);
        }
        "xz" => {
            case.opt = lzma_opts(rng, true);
            xz_extras(rng, case, len);
        }
        "lzip" => {
            case.opt = lzma_opts(rng, true);
            lzip_extras(rng, case, len);
        }
        "bcj" => {
            let k = *rng.pick(BCJ_KINDS);
            let a = bcj_alignment(k);
            let off = if rng.pct(50) { 0 } else { a * rng.range(0, 1 << 16) as u32 };
            case.opt.filters = vec![(k, off)];
        }
        "delta" => {
            case.opt.filters = vec![(3, rng.range(1, 256) as u32)];
        }
        _ => {}
    }
}

pub const BCJ_KINDS: &[u8] = &[4, 5, 6, 7, 8, 9, 10, 11];

pub fn bcj_alignment(kind: u8) -> u32 {
    match kind {
        4 => 1,
        5 | 7 | 9 | 10 => 4,
        6 => 16,
        8 | 11 => 2,
        _ => 1,
    }
}
