//! C05: truncation and I/O faults surface as errors; benign short/Interrupted I/O changes nothing.

use crate::codec;
use crate::common::*;
use crate::optgen;
use simcore::case::{benign_policy, biased_len, random_input, random_rbufs, random_wops, Case, IoFault, IoPolicy, Violation};
use simcore::io::{errkind, SimSink};
use simcore::rng::{mix, Rng};
use simcore::run::{classify_panic, guarded, Ctx, RunResult};
use std::collections::HashSet;
use std::sync::Arc;

const READER_FORMATS: &[&str] = &["lzma", "lzma", "lzma2", "lzma2", "xz", "xz", "lzip", "lzip"];
const ALL_FORMATS: &[&str] = &["lzma", "lzma", "lzma2", "lzma2", "xz", "xz", "lzip", "lzip", "bcj", "delta"];

pub fn gen(scen: &str, k: u64, seed: u64, tier: &str) -> Case {
    let mut rng = Rng::new(seed);
    let mut case = Case { prop: "C05".into(), scen: scen.into(), seed, ..Default::default() };
    let big = tier == "thorough";
    let _ = k;
    let mut r_in = rng.fork("input");
    let mut r_opt = rng.fork("opts");
    let mut r_ops = rng.fork("ops");
    let mut r_f = rng.fork("faults");
    match scen {
        "io.trunc" => {
            // small streams, every truncation point
            let len = biased_len(&mut r_in, if big { 4000 } else { 700 }, &[16, 256]);
            optgen::random_format(&mut r_opt, &mut case, READER_FORMATS, len);
            case.input = random_input(&mut r_in, len, case.opt.dict);
            case.rbufs = random_rbufs(&mut r_ops);
            case.set("only", -1);
            case.set("max_points", if big { 8192 } else { 512 });
            if case.fmt == "xz" && r_in.pct(35) {
                // several concatenated streams with stream padding
                case.set("streams", r_in.range(2, 3) as i64);
                case.set("pad_seed", (r_in.next_u64() >> 1) as i64);
                case.set("multi", 1);
                case.opt.unit = None;
            }
        }
        "io.read_err" => {
            let len = biased_len(&mut r_in, if big { 40000 } else { 6000 }, &[4096, 256]);
            optgen::random_format(&mut r_opt, &mut case, ALL_FORMATS, len);
            case.input = random_input(&mut r_in, len, case.opt.dict);
            case.rbufs = random_rbufs(&mut r_ops);
            case.src_policy = if r_f.pct(50) { benign_policy(&mut r_f) } else { IoPolicy::default() };
            if case.fmt == "xz" && r_in.pct(30) {
                // several concatenated streams with stream padding: faults inside the padding
                // and the next stream's header scan
                case.set("streams", r_in.range(2, 3) as i64);
                case.set("pad_seed", (r_in.next_u64() >> 1) as i64);
                case.set("multi", 1);
            }
            case.src_policy.intr_pct = 0;
            case.set("only", -1);
            case.set("errkind", r_f.below(6) as i64);
            case.set("transient", r_f.pct(30) as i64);
            case.set("max_points", if big { 1500 } else { 96 });
            case.set("pick_seed", (r_f.next_u64() >> 1) as i64);
        }
        "io.read_benign" => {
            let len = biased_len(&mut r_in, if big { 300000 } else { 30000 }, &[4096, 65536]);
            optgen::random_format(&mut r_opt, &mut case, ALL_FORMATS, len);
            case.input = random_input(&mut r_in, len, case.opt.dict);
            case.rbufs = random_rbufs(&mut r_ops);
            if case.fmt == "xz" && r_in.pct(30) {
                // several concatenated streams with stream padding: faults inside the padding
                // and the next stream's header scan
                case.set("streams", r_in.range(2, 3) as i64);
                case.set("pad_seed", (r_in.next_u64() >> 1) as i64);
                case.set("multi", 1);
            }
            case.src_policy = benign_policy(&mut r_f);
            if case.src_policy == IoPolicy::default() {
                case.src_policy = IoPolicy { seed: r_f.next_u64(), short_pct: 100, max_chunk: 3, intr_pct: 10 };
            }
        }
        "io.sink_err" => {
            let len = biased_len(&mut r_in, if big { 200000 } else { 20000 }, &[4096, 65536]);
            optgen::random_format(&mut r_opt, &mut case, ALL_FORMATS, len);
            case.input = random_input(&mut r_in, len, case.opt.dict);
            case.wops = random_wops(&mut r_ops, len, true, 40);
            case.set("only", -1);
            case.set("errkind", r_f.below(6) as i64);
            case.set("max_points", if big { 800 } else { 64 });
            case.set("pick_seed", (r_f.next_u64() >> 1) as i64);
        }
        _ => {
            // io.sink_benign
            let len = biased_len(&mut r_in, if big { 300000 } else { 30000 }, &[4096, 65536]);
            optgen::random_format(&mut r_opt, &mut case, ALL_FORMATS, len);
            case.input = random_input(&mut r_in, len, case.opt.dict);
            case.wops = random_wops(&mut r_ops, len, true, 40);
            case.sink_policy = benign_policy(&mut r_f);
            if case.sink_policy == IoPolicy::default() {
                case.sink_policy = IoPolicy { seed: r_f.next_u64(), short_pct: 100, max_chunk: 3, intr_pct: 10 };
            }
        }
    }
    case
}

/// Offsets in an LZIP file at which members start (computed from the trailers, walking forward
/// with the harness's own parser).
fn lzip_member_bounds(stream: &[u8]) -> Vec<usize> {
    simcore::parsers::lzip_members(stream).map(|m| m.iter().map(|x| x.start + x.len).collect()).unwrap_or_default()
}

pub fn exec(case: &Case, keep_log: bool) -> RunResult {
    let mut ctx = Ctx::new(keep_log);
    let data = case.input.gen();
    ctx.ev("input_len", data.len() as u64);
    let v = match case.scen.as_str() {
        "io.trunc" => trunc(case, &data, &mut ctx),
        "io.read_err" => read_err(case, &data, &mut ctx),
        "io.read_benign" => read_benign(case, &data, &mut ctx),
        "io.sink_err" => sink_err(case, &data, &mut ctx),
        _ => sink_benign(case, &data, &mut ctx),
    };
    codec::take_probes(&mut ctx);
    ctx.finish(v)
}

fn pick_points(total: usize, max_points: usize, seed: u64) -> Vec<usize> {
    if total <= max_points {
        return (0..total).collect();
    }
    let mut rng = Rng::new(seed);
    let mut set: HashSet<usize> = HashSet::new();
    // always the first and last few
    for i in 0..(max_points / 4).min(total) {
        set.insert(i);
        set.insert(total - 1 - i);
    }
    while set.len() < max_points {
        set.insert(rng.below(total as u64) as usize);
    }
    let mut v: Vec<usize> = set.into_iter().collect();
    v.sort();
    v
}

fn trunc(case: &Case, data: &[u8], ctx: &mut Ctx) -> Option<Violation> {
    let mut spans: Vec<(usize, usize)> = Vec::new();
    let stream = match prepare_file(case, data) {
        Ok((s, sp)) => {
            spans = sp;
            s
        }
        Err(_) => {
            // a writer that fails on a fault-free sink is C01/C02/C19's business
            ctx.metric("skipped_writer_failed", 1);
            return None;
        }
    };
    // a stream that does not even decode untruncated is C01/C02's business
    let full = decode(case, &Arc::new(stream.clone()), &IoPolicy::default(), &[], data.len(), data.len() + (1 << 20), false);
    if !matches!(full.end, End::Eof) || full.out != data {
        ctx.metric("skipped_roundtrip_broken", 1);
        return None;
    }
    // Bytes the reader never asks for (an end marker behind data whose size the reader was
    // told) are not part of the stream as this reader sees it: cutting there is no truncation.
    let needed = full.consumed.min(stream.len());
    ctx.bytes("stream", &stream);
    structure_reach(ctx, &case.fmt, &stream);
    let comp = reader_component(case);
    let bounds = if case.fmt == "lzip" { lzip_member_bounds(&stream) } else { vec![] };
    let only = case.knob_or("only", -1);
    let points: Vec<usize> = if only >= 0 { vec![only as usize] } else { pick_points(stream.len(), case.knob_or("max_points", 512) as usize, case.seed) };
    let mut distinct: HashSet<u64> = HashSet::new();
    let mut found = None;
    for &t in &points {
        if t >= needed {
            continue;
        }
        if t == 0 && case.fmt == "lzip" {
            // A zero-byte file is read as an empty LZIP file. The repository's own suite relies
            // on that (lzip_reference::executable_executable reads a 0-byte fixture), and C04
            // only demands rejection of non-empty non-LZIP input.
            continue;
        }
        if bounds.contains(&t) {
            // a file that ends at a member boundary is a complete (shorter) LZIP file
            continue;
        }
        if spans.len() > 1 && spans.iter().enumerate().any(|(i, sp)| t >= sp.1 && (i + 1 == spans.len() || t <= spans[i + 1].0)) {
            // a multi-stream XZ file cut at a stream end or inside the stream padding consists
            // of complete streams only (whether cut padding is an error is C12's question)
            continue;
        }
        ctx.evals += 1;
        let cut = Arc::new(stream[..t].to_vec());
        let d = decode(case, &cut, &IoPolicy::default(), &[], data.len(), data.len() + (1 << 20), false);
        ctx.steps += d.stats.calls;
        ctx.fire("truncation", 1);
        distinct.insert(mix(t as u64, mix(d.end.tag(), d.out.len() as u64)));
        let v = universal_decode_violation(case, &d).or_else(|| {
            if !is_prefix(&d.out, data) {
                return Some(Violation::new("wrong-bytes", comp, "truncated-stream", format!("truncated at {t}/{}: byte {} differs from the original", stream.len(), first_diff(&d.out, data))));
            }
            match &d.end {
                End::Err(..) => None,
                End::Eof => {
                    // LZIP: after >= 1 complete member, a tail that does not start with the
                    // magic is trailing garbage by the format's own definition.
                    if case.fmt == "lzip" {
                        if let Some(&b) = bounds.iter().filter(|&&b| b <= t).last() {
                            let tail = &stream[b..t];
                            let starts_with_magic = tail.len() >= 4 && &tail[..4] == b"LZIP";
                            let expect: usize = simcore::parsers::lzip_members(&stream).map(|m| m.iter().filter(|x| x.start + x.len <= b).map(|x| x.data_size as usize).sum()).unwrap_or(0);
                            if !starts_with_magic && d.out.len() == expect {
                                return None;
                            }
                        }
                    }
                    Some(Violation::new("truncation-accepted", comp, fmt_tag(case), format!("stream truncated at {t}/{} read to a clean end of stream ({} of {} bytes delivered)", stream.len(), d.out.len(), data.len())))
                }
                _ => None,
            }
        });
        if let Some(v) = v {
            ctx.pin.insert("only".into(), t as i64);
            found = Some(v);
            break;
        }
    }
    ctx.distinct_sub = distinct.len() as u64;
    ctx.nontrivial = !stream.is_empty() && !points.is_empty();
    ctx.ev("points", points.len() as u64);
    found
}

fn read_err(case: &Case, data: &[u8], ctx: &mut Ctx) -> Option<Violation> {
    let stream = match prepare_file(case, data) {
        Ok((s, _)) => Arc::new(s),
        Err(_) => {
            ctx.metric("skipped_writer_failed", 1);
            return None;
        }
    };
    ctx.bytes("stream", &stream);
    let comp = reader_component(case);
    // dry run: how many source calls does this read history make?
    let dry = decode(case, &stream, &case.src_policy, &[], data.len(), data.len() + (1 << 20), false);
    if !matches!(dry.end, End::Eof) || dry.out != data {
        // the error-free decode is wrong already: C01/C02 (or io.read_benign) report that
        ctx.metric("skipped_roundtrip_broken", 1);
        return None;
    }
    let calls = dry.stats.calls as usize;
    let only = case.knob_or("only", -1);
    let points: Vec<usize> = if only >= 0 { vec![only as usize] } else { pick_points(calls, case.knob_or("max_points", 96) as usize, case.knob("pick_seed") as u64) };
    let kind = errkind(case.knob("errkind") as u64);
    let transient = case.knob("transient") != 0;
    let mut distinct: HashSet<u64> = HashSet::new();
    let mut found = None;
    for &j in &points {
        ctx.evals += 1;
        let f = IoFault { at: j as u64, kind: if transient { "err_t".into() } else { "err_p".into() }, arg: case.knob("errkind") as u64 };
        let d = decode(case, &stream, &case.src_policy, &[f], data.len(), data.len() + (1 << 20), false);
        ctx.steps += d.stats.calls;
        for (k, v) in &d.stats.fired {
            ctx.fire(k, *v);
        }
        let fired = d.stats.fired.contains_key("read_error_persistent") || d.stats.fired.contains_key("read_error_transient");
        distinct.insert(mix(j as u64, mix(d.end.tag(), d.out.len() as u64)));
        let v = universal_decode_violation(case, &d).or_else(|| {
            if !is_prefix(&d.out, data) {
                return Some(Violation::new("wrong-bytes", comp, "read-error", format!("error at source call {j}: byte {} differs from the original", first_diff(&d.out, data))));
            }
            if !fired {
                // the reader never made call j (it stopped earlier): nothing to demand
                return None;
            }
            match &d.end {
                End::Err(k, msg) => {
                    if !transient && *k != kind {
                        Some(Violation::new("error-kind-lost", comp, fmt_tag(case), format!("source failed with {kind:?} at call {j}, reader reported {k:?} ({msg})")))
                    } else {
                        None
                    }
                }
                End::Eof => {
                    if transient && d.out == data {
                        None
                    } else {
                        Some(Violation::new("error-swallowed", comp, fmt_tag(case), format!("source failed with {kind:?} at call {j} of {calls}, reader reported a clean end of stream after {} of {} bytes", d.out.len(), data.len())))
                    }
                }
                _ => None,
            }
        });
        if let Some(v) = v {
            ctx.pin.insert("only".into(), j as i64);
            found = Some(v);
            break;
        }
    }
    ctx.distinct_sub = distinct.len() as u64;
    ctx.nontrivial = calls > 0;
    ctx.ev("calls", calls as u64);
    found
}

fn read_benign(case: &Case, data: &[u8], ctx: &mut Ctx) -> Option<Violation> {
    let stream = match prepare_file(case, data) {
        Ok((s, _)) => Arc::new(s),
        Err(_) => {
            ctx.metric("skipped_writer_failed", 1);
            return None;
        }
    };
    ctx.bytes("stream", &stream);
    let comp = reader_component(case);
    {
        let full = decode(case, &stream, &IoPolicy::default(), &[], data.len(), data.len() + (1 << 20), false);
        if !matches!(full.end, End::Eof) || full.out != data {
            ctx.metric("skipped_roundtrip_broken", 1);
            return None;
        }
    }
    let d = decode(case, &stream, &case.src_policy, &[], data.len(), data.len() + (1 << 20), ctx.keep_log);
    absorb(ctx, "source", &d.stats);
    ctx.nontrivial = d.stats.fired.values().sum::<u64>() > 0 && !data.is_empty();
    ctx.ev("end", d.end.tag());
    ctx.bytes("out", &d.out);
    universal_decode_violation(case, &d).or_else(|| match &d.end {
        End::Eof if d.out == data => None,
        End::Eof => Some(Violation::new("wrong-bytes", comp, "benign-source", format!("short/interrupted reads changed the decoded bytes: {} bytes, first difference at {}, expected {}", d.out.len(), first_diff(&d.out, data), data.len()))),
        End::Err(k, m) => Some(Violation::new("benign-fault-error", comp, format!("{k:?}:{m}"), format!("short/interrupted reads made a valid stream fail after {} of {} bytes: {m}", d.out.len(), data.len()))),
        _ => None,
    })
}

struct SinkRun {
    result: Result<(), (String, std::io::Error)>,
    bytes: Vec<u8>,
    stats: simcore::io::IoStats,
}

fn run_writer(case: &Case, data: &[u8], policy: &IoPolicy, faults: &[IoFault]) -> Result<SinkRun, (String, String)> {
    let sink = SimSink::new(policy, faults);
    let (out, stats) = sink.handle();
    let r = guarded(|| codec::encode_to(case, data, sink));
    let bytes = out.lock().unwrap().clone();
    let st = stats.lock().unwrap().clone();
    match r {
        Ok(result) => Ok(SinkRun { result, bytes, stats: st }),
        Err(p) => Err(p),
    }
}

fn sink_err(case: &Case, data: &[u8], ctx: &mut Ctx) -> Option<Violation> {
    let comp = writer_component(case);
    let dry = match run_writer(case, data, &IoPolicy::default(), &[]) {
        Ok(r) => r,
        Err(_) => {
            ctx.metric("skipped_writer_failed", 1);
            return None;
        }
    };
    if dry.result.is_err() {
        ctx.metric("skipped_writer_failed", 1);
        return None;
    }
    let calls = dry.stats.calls as usize;
    let flushes = dry.stats.flushes as usize;
    let only = case.knob_or("only", -1);
    let points: Vec<usize> = if only >= 0 { vec![only as usize] } else { pick_points(calls + flushes, case.knob_or("max_points", 64) as usize, case.knob("pick_seed") as u64) };
    let mut distinct: HashSet<u64> = HashSet::new();
    let mut found = None;
    for &j in &points {
        ctx.evals += 1;
        let f = if j < calls { IoFault { at: j as u64, kind: "err_p".into(), arg: case.knob("errkind") as u64 } } else { IoFault { at: (j - calls) as u64, kind: "flush_err".into(), arg: case.knob("errkind") as u64 } };
        let r = match run_writer(case, data, &IoPolicy::default(), &[f]) {
            Ok(r) => r,
            Err((loc, msg)) => {
                ctx.pin.insert("only".into(), j as i64);
                found = Some(classify_panic(comp, &loc, &msg));
                break;
            }
        };
        ctx.steps += r.stats.calls + r.stats.flushes;
        for (k, v) in &r.stats.fired {
            ctx.fire(k, *v);
        }
        let fired = r.stats.fired.values().sum::<u64>() > 0;
        distinct.insert(mix(j as u64, r.result.is_ok() as u64));
        if fired && r.result.is_ok() {
            ctx.pin.insert("only".into(), j as i64);
            found = Some(Violation::new("sink-error-swallowed", comp, fmt_tag(case), format!("the sink failed at {} {} of {calls}+{flushes} and every writer operation including finish returned Ok", if j < calls { "write call" } else { "flush call" }, if j < calls { j } else { j - calls })));
            break;
        }
    }
    ctx.distinct_sub = distinct.len() as u64;
    ctx.nontrivial = calls > 0;
    ctx.ev("calls", calls as u64);
    found
}

fn sink_benign(case: &Case, data: &[u8], ctx: &mut Ctx) -> Option<Violation> {
    let comp = writer_component(case);
    let clean = match run_writer(case, data, &IoPolicy::default(), &[]) {
        Ok(r) => r,
        Err(_) => {
            ctx.metric("skipped_writer_failed", 1);
            return None;
        }
    };
    if clean.result.is_err() {
        ctx.metric("skipped_writer_failed", 1);
        return None;
    }
    let noisy = match run_writer(case, data, &case.sink_policy, &[]) {
        Ok(r) => r,
        Err((loc, msg)) => return Some(classify_panic(comp, &loc, &msg)),
    };
    absorb(ctx, "sink", &noisy.stats);
    ctx.bytes("sink", &noisy.bytes);
    ctx.nontrivial = noisy.stats.fired.values().sum::<u64>() > 0 && !data.is_empty();
    if let Err((stage, e)) = &noisy.result {
        return Some(Violation::new("benign-fault-error", comp, format!("{stage}:{:?}", e.kind()), format!("short/interrupted writes made the writer fail: {e}")));
    }
    if noisy.bytes != clean.bytes {
        return Some(Violation::new("sink-bytes-differ", comp, fmt_tag(case), format!("short/interrupted writes changed the compressed bytes: {} vs {} bytes, first difference at {}", noisy.bytes.len(), clean.bytes.len(), first_diff(&noisy.bytes, &clean.bytes))));
    }
    None
}
