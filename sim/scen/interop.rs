//! C03 (interoperability with liblzma in both directions) and C11 (filters: inverse, reference).
//! liblzma runs real C code through FFI; it is deterministic and single-threaded as used here
//! and is the second party on the byte pipe, not under the simulator's control.

use crate::codec;
use crate::common::*;
use crate::optgen;
use crate::rt::encode_sim;
use liblzma::stream::{Action, Check, Filters, LzmaOptions, MatchFinder, Mode, Status, Stream};
use simcore::case::{benign_policy, biased_len, random_input, random_rbufs, random_wops, Case, IoPolicy, Violation};
use simcore::parsers;
use simcore::rng::Rng;
use simcore::run::{classify_panic, guarded, Ctx, RunResult};
use std::sync::Arc;

pub fn gen(prop: &str, scen: &str, _k: u64, seed: u64, tier: &str) -> Case {
    let rng = Rng::new(seed);
    let mut case = Case { prop: prop.into(), scen: scen.into(), seed, ..Default::default() };
    let big = tier == "thorough";
    let mut r_in = rng.fork("input");
    let mut r_opt = rng.fork("opts");
    let mut r_ops = rng.fork("ops");
    let mut r_f = rng.fork("faults");
    match scen {
        "interop.ours_to_ref" => {
            let len = biased_len(&mut r_in, if big { 300_000 } else { 50_000 }, &[4096, 8192, 65536]);
            optgen::random_format(&mut r_opt, &mut case, &["lzma", "lzma2", "xz", "xz", "lzip"], len);
            case.opt.preset = None; // the crate's bindings give no way to hand a preset dictionary to liblzma
            if case.fmt == "lzma" {
                // liblzma supports lc + lp <= 4 only
                if case.opt.lc + case.opt.lp > 4 {
                    case.opt.lc = 4 - case.opt.lp.min(4);
                }
                if case.knob("hdr") != 0 {
                    // its .lzma ("alone") decoder accepts only dictionary sizes 2^n and 2^n + 2^(n-1)
                    case.opt.dict = *r_opt.pick(&[4096u32, 6144, 8192, 12288, 65536, 98304, 1 << 20]);
                } else {
                    // a raw LZMA1 stream can only be delimited by the end marker for liblzma
                    case.set("marker", 1);
                    case.set("sized", 0);
                    case.set("reader_knows_size", 0);
                }
            }
            case.input = random_input(&mut r_in, len, case.opt.dict);
            if r_in.pct(3) && matches!(case.fmt.as_str(), "lzma2" | "xz") {
                // head / > 128 KiB of noise / short tail: uncompressed chunks, then a state reset
                case.input = simcore::case::sandwich_input(&mut r_in);
            }
            let len = case.input.len;
            case.wops = random_wops(&mut r_ops, len, true, 20);
            case.set("chunk_seed", (r_ops.next_u64() >> 1) as i64);
        }
        "interop.ref_to_ours" => {
            let len = biased_len(&mut r_in, if big { 300_000 } else { 50_000 }, &[4096, 8192, 65536]);
            case.fmt = (*r_opt.pick(&["xz-easy", "xz-filters", "xz-filters", "xz-mt", "lzma-alone", "lzma2-raw", "lzma1-raw", "lzip"])).into();
            case.opt = optgen::lzma_opts(&mut r_opt, true);
            if r_opt.pct(30) {
                case.opt.dict = *r_opt.pick(&[4096u32, 65536, 1 << 20, 3 << 19, 1 << 22]);
            }
            case.opt.check = *r_opt.pick(&[0u8, 1, 4, 10]);
            case.set("preset", if r_opt.pct(3) && big { r_opt.range(7, 9) as i64 } else { r_opt.range(0, 6) as i64 });
            case.set("extreme", r_opt.pct(15) as i64);
            case.set("custom", r_opt.pct(70) as i64);
            case.set("mf", r_opt.below(5) as i64);
            case.set("flush_points", r_ops.range(0, 3) as i64);
            case.set("chunk_seed", (r_ops.next_u64() >> 1) as i64);
            if case.fmt == "xz-mt" {
                // liblzma's threaded encoder: several blocks whose headers carry both size fields
                let bs = match r_opt.below(4) {
                    0 => 4096,
                    1 => (len / 3).max(4096),
                    2 => r_opt.urange(4096, 70_000),
                    _ => 1 << 20,
                };
                case.set("mt_block", bs as i64);
                case.set("mt_threads", r_opt.range(1, 3) as i64);
            }
            if (case.fmt == "xz-filters" || case.fmt == "xz-mt") && r_opt.pct(70) {
                let mut dummy = case.clone();
                dummy.opt.filters.clear();
                optgen::xz_extras(&mut r_opt, &mut dummy, len);
                case.opt.filters = dummy.opt.filters;
                case.opt.check = dummy.opt.check;
            }
            if case.fmt == "lzip" {
                case.opt.lc = 3;
                case.opt.lp = 0;
                case.opt.pb = 2;
                case.opt.dict = *r_opt.pick(&[4096u32, 8192, 65536, 1 << 20, 3 << 19]);
            }
            case.input = random_input(&mut r_in, len, case.opt.dict);
            if r_in.pct(4) && matches!(case.fmt.as_str(), "xz-easy" | "xz-filters" | "xz-mt" | "lzma2-raw") {
                // liblzma stores > 128 KiB of noise as uncompressed chunks and opens the tail with
                // a state-reset chunk (control 0xA0 when it holds at most 64 KiB)
                case.input = simcore::case::sandwich_input(&mut r_in);
            }
            if case.fmt == "xz-mt" && r_in.pct(3) {
                // 128 and more blocks: two-byte record count in the index
                case.set("mt_block", 4096);
                case.input = simcore::case::InputSpec { class: "text".into(), len: 4096 * 127 + 1 + r_in.urange(0, 60_000), seed: r_in.next_u64(), p1: r_in.below(11356), p2: 0 };
            }
            case.rbufs = random_rbufs(&mut r_ops);
            case.src_policy = if r_f.pct(40) { benign_policy(&mut r_f) } else { IoPolicy::default() };
        }
        "filter.inverse" | "filter.ref" => {
            let len = match r_in.below(5) {
                0 => r_in.urange(0, 40),
                1 => 4096 + r_in.urange(0, 32) - 16,
                2 => 8192 + r_in.urange(0, 32) - 16,
                _ => biased_len(&mut r_in, if big { 400_000 } else { 40_000 }, &[4096, 8192, 12288]),
            };
            if r_opt.pct(20) {
                case.fmt = "delta".into();
                case.opt.filters = vec![(3, r_opt.range(1, 256) as u32)];
            } else {
                case.fmt = "bcj".into();
                let k = *r_opt.pick(codec::BCJ_KINDS);
                let a = codec::bcj_alignment(k);
                let off = match r_opt.below(6) {
                    0 | 1 => 0,
                    2 => a * r_opt.range(1, 4096) as u32,
                    3 => (0x7FFF_FF00u32 / a) * a,
                    4 => (0xFFFF_F000u32 / a) * a,
                    _ => a * (r_opt.next_u64() as u32 / a.max(1)),
                };
                case.opt.filters = vec![(k, off)];
            }
            let (k, _) = case.opt.filters[0];
            case.input = match r_in.below(if k == 4 { 5 } else { 4 }) {
                4 => simcore::case::InputSpec::new("x86soup", len, r_in.next_u64()),
                0 => {
                    let mut s = simcore::case::InputSpec::new("code", len, r_in.next_u64());
                    s.p1 = match k {
                        4 => 0,
                        7 => 1,
                        8 => 2,
                        10 => 3,
                        5 => 4,
                        9 => 5,
                        6 => 6,
                        _ => 7,
                    };
                    s.p2 = r_in.next_u64() >> 20;
                    s
                }
                1 => simcore::case::InputSpec { class: "branchy".into(), len, seed: r_in.next_u64(), p1: k as u64, p2: r_in.range(2, 40) },
                2 => simcore::case::InputSpec::new("random", len, r_in.next_u64()),
                _ => random_input(&mut r_in, len, 4096),
            };
            case.rbufs = random_rbufs(&mut r_ops);
            case.src_policy = if r_f.pct(40) { benign_policy(&mut r_f) } else { IoPolicy::default() };
        }
        _ => {}
    }
    case
}

pub fn exec(case: &Case, keep_log: bool) -> RunResult {
    let mut ctx = Ctx::new(keep_log);
    let data = if case.input.class == "branchy" { branchy(case.input.p1 as u8, case.input.len, case.input.seed, case.input.p2) } else { case.input.gen() };
    ctx.ev("input_len", data.len() as u64);
    let v = match case.scen.as_str() {
        "interop.ours_to_ref" => ours_to_ref(case, &data, &mut ctx),
        "interop.ref_to_ours" => ref_to_ours(case, &data, &mut ctx),
        "filter.inverse" => filter_inverse(case, &data, &mut ctx),
        "filter.ref" => filter_ref(case, &data, &mut ctx),
        _ => None,
    };
    codec::take_probes(&mut ctx);
    ctx.finish(v)
}

/// Synthetic code dense in the branch opcodes of one architecture, with random operands.
pub fn branchy(kind: u8, len: usize, seed: u64, density: u64) -> Vec<u8> {
    let mut rng = Rng::new(seed ^ 0xB1A);
    let mut out = vec![0u8; len];
    rng.fill(&mut out);
    let step = density.max(1) as usize;
    let mut i = rng.urange(0, step);
    while i + 16 <= len {
        match kind {
            4 => {
                out[i] = if rng.pct(50) { 0xE8 } else { 0xE9 };
                // plausible rel32: top byte 0x00 or 0xFF
                out[i + 4] = if rng.pct(50) { 0x00 } else { 0xFF };
            }
            7 => out[(i & !3) + 3] = 0xEB,
            8 => {
                let j = i & !1;
                out[j + 1] = 0xF0 | (out[j + 1] & 7);
                out[j + 3] = 0xF8 | (out[j + 3] & 7);
            }
            10 => {
                let j = i & !3;
                if rng.pct(50) {
                    out[j + 3] = 0x94 | (out[j + 3] & 3);
                } else {
                    out[j + 3] = 0x90 | (out[j + 3] & 0x60);
                }
            }
            5 => {
                let j = i & !3;
                out[j] = 0x48 | (out[j] & 3);
                out[j + 3] = (out[j + 3] & 0xFC) | 1;
            }
            9 => {
                let j = i & !3;
                out[j] = 0x40;
                out[j + 1] &= 0x3F;
                if rng.pct(50) {
                    out[j] = 0x7F;
                    out[j + 1] |= 0xC0;
                }
            }
            6 => {
                let j = i & !15;
                out[j] = (out[j] & 0xE0) | *rng.pick(&[0x10u8, 0x11, 0x12, 0x13, 0x16, 0x17, 0x18, 0x19]);
            }
            _ => {
                let j = i & !1;
                match rng.below(3) {
                    0 => {
                        out[j] = 0xEF;
                    }
                    1 => {
                        out[j] = 0x97 | (out[j] & 0x80);
                        out[j + 4] = 0x67 | (out[j + 4] & 0x80);
                    }
                    _ => {
                        out[j] = 0x17 | (out[j] & 0x80);
                    }
                }
            }
        }
        i += rng.urange(1, 2 * step);
    }
    out
}

// ---------------------------------------------------------------------------------------------
// liblzma helpers
// ---------------------------------------------------------------------------------------------

fn chunking(rng: &mut Rng, len: usize) -> Vec<usize> {
    match rng.below(4) {
        0 => vec![len.max(1)],
        1 => vec![1],
        _ => (0..rng.urange(1, 6)).map(|_| *rng.pick(&[1usize, 2, 7, 100, 4096, 65536])).collect(),
    }
}

/// One liblzma call sequence: push `input` with `action` until it is consumed (Run) or the
/// action completes (StreamEnd). `Ok(false)` = liblzma cannot make progress (LZMA_BUF_ERROR).
fn pump(s: &mut Stream, input: &[u8], action: Action, out: &mut Vec<u8>) -> Result<bool, String> {
    let start = s.total_in();
    let mut idle = 0;
    loop {
        if out.capacity() - out.len() < 4096 {
            out.reserve(65536);
        }
        let consumed = ((s.total_in() - start) as usize).min(input.len());
        let before_out = s.total_out();
        let st = s.process_vec(&input[consumed..], out, action).map_err(|e| format!("{e:?}"))?;
        if matches!(st, Status::StreamEnd) {
            return Ok(true);
        }
        let consumed2 = ((s.total_in() - start) as usize).min(input.len());
        if matches!(action, Action::Run) && consumed2 >= input.len() {
            return Ok(true);
        }
        if consumed2 == consumed && s.total_out() == before_out {
            idle += 1;
            if idle > 2 || matches!(st, Status::MemNeeded) {
                return Ok(false);
            }
        } else {
            idle = 0;
        }
    }
}

/// Encoding side: feeds `input` in the given chunking (FullFlush at the offsets in `flush_at`,
/// which must be chunk ends), then finishes.
fn ref_process(s: &mut Stream, input: &[u8], chunks: &[usize], flush_at: &[usize]) -> Result<(Vec<u8>, Status, u64), String> {
    let mut out: Vec<u8> = Vec::with_capacity(input.len() / 2 + 4096);
    let mut off = 0usize;
    let mut ci = 0usize;
    while off < input.len() {
        let n = chunks[ci % chunks.len()].max(1).min(input.len() - off);
        ci += 1;
        if !pump(s, &input[off..off + n], Action::Run, &mut out)? {
            return Err("encoder made no progress".into());
        }
        off += n;
        if flush_at.contains(&off) && off < input.len() && !pump(s, &[], Action::FullFlush, &mut out)? {
            return Err("flush made no progress".into());
        }
    }
    if !pump(s, &[], Action::Finish, &mut out)? {
        return Err("finish made no progress".into());
    }
    Ok((out, Status::StreamEnd, s.total_in()))
}

/// Decoding side: feed everything, finish. Returns (output, stream end reached, bytes consumed).
fn ref_decode(s: &mut Stream, input: &[u8], chunks: &[usize]) -> Result<(Vec<u8>, bool, u64), String> {
    let mut out: Vec<u8> = Vec::with_capacity(input.len() * 3 + 4096);
    let mut off = 0usize;
    let mut ci = 0usize;
    while off < input.len() {
        let n = chunks[ci % chunks.len()].max(1).min(input.len() - off);
        ci += 1;
        let before = s.total_in();
        let st_end = {
            // StreamEnd may arrive in the middle of the input
            let start_out = out.len();
            let r = pump(s, &input[off..off + n], Action::Run, &mut out)?;
            let _ = start_out;
            r && (s.total_in() - before) as usize <= n && false
        };
        let _ = st_end;
        let used = (s.total_in() - before) as usize;
        if used < n {
            // the decoder stopped before the end of the piece: it saw the end of the stream
            return Ok((out, true, s.total_in()));
        }
        off += n;
    }
    let ended = pump(s, &[], Action::Finish, &mut out)?;
    Ok((out, ended, s.total_in()))
}

/// Does the reference implementation read `bytes` as a complete, valid file of this format, and
/// to what content? Used by C04 to recognise damage that turned one valid file into another
/// valid file (duplicated or removed members, a torn write that left a complete other file).
pub fn reference_reads(fmt: &str, multi: bool, bytes: &[u8]) -> Option<Vec<u8>> {
    let flags = if multi || fmt == "lzip" { liblzma::stream::CONCATENATED } else { 0 };
    let mut s = if fmt == "xz" { Stream::new_stream_decoder(u64::MAX, flags).ok()? } else { Stream::new_lzip_decoder(u64::MAX, flags).ok()? };
    match ref_decode(&mut s, bytes, &[1 << 20]) {
        Ok((out, true, _)) => Some(out),
        _ => None,
    }
}

fn ref_lzma_options(case: &Case) -> Result<LzmaOptions, String> {
    let o = &case.opt;
    let mut l = LzmaOptions::new_preset(case.knob_or("preset", 6).clamp(0, 9) as u32 | if case.knob("extreme") != 0 { liblzma::stream::PRESET_EXTREME } else { 0 }).map_err(|e| format!("{e:?}"))?;
    if case.knob_or("custom", 1) != 0 {
        let mf = match case.knob("mf") {
            0 => MatchFinder::HashChain3,
            1 => MatchFinder::HashChain4,
            2 => MatchFinder::BinaryTree2,
            3 => MatchFinder::BinaryTree3,
            _ => MatchFinder::BinaryTree4,
        };
        l.dict_size(o.dict).literal_context_bits(o.lc).literal_position_bits(o.lp).position_bits(o.pb).mode(if o.mode == 0 { Mode::Fast } else { Mode::Normal }).nice_len(o.nice.clamp(8, 273)).match_finder(mf).depth(o.depth.max(0) as u32);
    }
    Ok(l)
}

fn ref_check(c: u8) -> Check {
    match c {
        0 => Check::None,
        1 => Check::Crc32,
        4 => Check::Crc64,
        _ => Check::Sha256,
    }
}

fn add_prefilters(f: &mut Filters, filters: &[(u8, u32)]) -> Result<(), String> {
    for &(k, p) in filters {
        let props = p.to_le_bytes();
        let pr: &[u8] = if p == 0 { &[] } else { &props };
        let r = match k {
            3 => f.delta_properties(&[(p.clamp(1, 256) - 1) as u8]).map(|_| ()),
            4 => f.x86_properties(pr).map(|_| ()),
            5 => f.powerpc_properties(pr).map(|_| ()),
            6 => f.ia64_properties(pr).map(|_| ()),
            7 => f.arm_properties(pr).map(|_| ()),
            8 => f.arm_thumb_properties(pr).map(|_| ()),
            9 => f.sparc_properties(pr).map(|_| ()),
            10 => f.arm64_properties(pr).map(|_| ()),
            _ => f.riscv_properties(pr).map(|_| ()),
        };
        r.map_err(|e| format!("filter props: {e:?}"))?;
    }
    Ok(())
}

// ---------------------------------------------------------------------------------------------
// C03
// ---------------------------------------------------------------------------------------------

fn ours_to_ref(case: &Case, data: &[u8], ctx: &mut Ctx) -> Option<Violation> {
    let enc = match encode_sim(case, data) {
        Ok(e) => e,
        Err(_) => {
            ctx.metric("skipped_writer_failed", 1);
            return None;
        }
    };
    ctx.bytes("stream", &enc.bytes);
    structure_reach(ctx, &case.fmt, &enc.bytes);
    ctx.nontrivial = true;
    let comp = writer_component(case);
    let o = &case.opt;
    let mut lo = LzmaOptions::new_preset(0).ok()?;
    lo.dict_size(if case.fmt == "lzip" { o.dict.clamp(4096, 512 << 20) } else { o.dict }).literal_context_bits(o.lc).literal_position_bits(o.lp).position_bits(o.pb);
    let stream = match case.fmt.as_str() {
        "lzma" if case.knob("hdr") != 0 => Stream::new_lzma_decoder(u64::MAX),
        "lzma" => {
            let mut f = Filters::new();
            f.lzma1(&lo);
            Stream::new_raw_decoder(&f)
        }
        "lzma2" => {
            let mut f = Filters::new();
            f.lzma2(&lo);
            Stream::new_raw_decoder(&f)
        }
        "xz" => Stream::new_stream_decoder(u64::MAX, 0),
        _ => Stream::new_lzip_decoder(u64::MAX, liblzma::stream::CONCATENATED),
    };
    let mut stream = match stream {
        Ok(s) => s,
        Err(e) => return Some(Violation::new("harness-error", "harness", "liblzma-init", format!("{e:?}"))),
    };
    let mut crng = Rng::new(case.knob("chunk_seed") as u64);
    let chunks = chunking(&mut crng, enc.bytes.len());
    ctx.ev("chunks", chunks.len() as u64);
    match ref_decode(&mut stream, &enc.bytes, &chunks) {
        Err(e) => Some(Violation::new("reference-rejects", comp, format!("{}:{e}", fmt_tag(case)), format!("liblzma fails on the {} bytes the writer produced for {} input bytes: {e}", enc.bytes.len(), data.len()))),
        Ok((out, ended, total_in)) => {
            ctx.bytes("ref_out", &out);
            if out != data {
                return Some(Violation::new("reference-decodes-differently", comp, fmt_tag(case), format!("liblzma decoded {} bytes, expected {}, first difference at {}", out.len(), data.len(), first_diff(&out, data))));
            }
            if !ended {
                return Some(Violation::new("reference-sees-no-end", comp, fmt_tag(case), "liblzma decoded all data but did not reach the end of the stream (missing end marker / terminator / footer)"));
            }
            if total_in != enc.bytes.len() as u64 {
                return Some(Violation::new("reference-leaves-bytes", comp, fmt_tag(case), format!("liblzma reached the stream end after {} of {} bytes", total_in, enc.bytes.len())));
            }
            None
        }
    }
}

fn ref_encode(case: &Case, data: &[u8]) -> Result<Vec<u8>, String> {
    let mut crng = Rng::new(case.knob("chunk_seed") as u64);
    let chunks = chunking(&mut crng, data.len());
    let mut flush_at = Vec::new();
    let opts = ref_lzma_options(case)?;
    let mut s = match case.fmt.as_str() {
        "xz-easy" => Stream::new_easy_encoder(case.knob_or("preset", 6).clamp(0, 9) as u32 | if case.knob("extreme") != 0 { liblzma::stream::PRESET_EXTREME } else { 0 }, ref_check(case.opt.check)),
        "xz-filters" => {
            let mut f = Filters::new();
            add_prefilters(&mut f, &case.opt.filters)?;
            f.lzma2(&opts);
            for _ in 0..case.knob("flush_points") {
                if !data.is_empty() {
                    flush_at.push(crng.urange(1, data.len()));
                }
            }
            Stream::new_stream_encoder(&f, ref_check(case.opt.check))
        }
        "xz-mt" => {
            let mut f = Filters::new();
            add_prefilters(&mut f, &case.opt.filters)?;
            f.lzma2(&opts);
            let mut b = liblzma::stream::MtStreamBuilder::new();
            b.threads(case.knob_or("mt_threads", 1).clamp(1, 4) as u32).block_size(case.knob_or("mt_block", 4096).max(1) as u64).timeout_ms(0).filters(f).check(ref_check(case.opt.check));
            b.encoder()
        }
        "lzma-alone" => Stream::new_lzma_encoder(&opts),
        "lzma2-raw" => {
            let mut f = Filters::new();
            f.lzma2(&opts);
            Stream::new_raw_encoder(&f)
        }
        _ => {
            // "lzma1-raw" and the payload of "lzip"
            let mut f = Filters::new();
            f.lzma1(&opts);
            Stream::new_raw_encoder(&f)
        }
    }
    .map_err(|e| format!("init {e:?}"))?;
    // flush points must coincide with chunk ends: simplest is to feed exact pieces
    let mut pieces: Vec<usize> = flush_at.clone();
    pieces.sort();
    pieces.dedup();
    if pieces.is_empty() {
        let (out, _, _) = ref_process(&mut s, data, &chunks, &[])?;
        return Ok(out);
    }
    let mut sizes = Vec::new();
    let mut prev = 0;
    for p in &pieces {
        sizes.push(p - prev);
        prev = *p;
    }
    sizes.push((data.len() - prev).max(1));
    let (out, _, _) = ref_process(&mut s, data, &sizes, &pieces)?;
    Ok(out)
}

fn ref_to_ours(case: &Case, data: &[u8], ctx: &mut Ctx) -> Option<Violation> {
    let mut stream = match ref_encode(case, data) {
        Ok(s) => s,
        Err(e) => {
            // option combination liblzma itself refuses: not part of "the supported feature set"
            ctx.metric("skipped_reference_refused", 1);
            ctx.ev("ref_refused", simcore::rng::fnv1a(&e));
            return None;
        }
    };
    // our reader for it
    let mut rc = case.clone();
    rc.knobs.clear();
    let o = &case.opt;
    let effective = ref_lzma_options(case).ok();
    let _ = effective;
    match case.fmt.as_str() {
        "xz-easy" | "xz-filters" | "xz-mt" => {
            rc.fmt = "xz".into();
            rc.set("multi", 0);
        }
        "lzma-alone" => {
            rc.fmt = "lzma".into();
            rc.set("hdr", 1);
            rc.set("marker", 1);
        }
        "lzma2-raw" => {
            rc.fmt = "lzma2".into();
            if case.knob_or("custom", 1) == 0 {
                rc.opt.dict = preset_dict_size(case.knob_or("preset", 6));
            }
        }
        "lzma1-raw" => {
            rc.fmt = "lzma".into();
            rc.set("marker", 1);
            if case.knob_or("custom", 1) == 0 {
                rc.opt.dict = preset_dict_size(case.knob_or("preset", 6));
                rc.opt.lc = 3;
                rc.opt.lp = 0;
                rc.opt.pb = 2;
            }
        }
        _ => {
            // lzip: wrap the raw LZMA1 payload (needs lc3 lp0 pb2 and an end marker)
            rc.fmt = "lzip".into();
            let dict = if case.knob_or("custom", 1) == 0 { preset_dict_size(case.knob_or("preset", 6)) } else { o.dict };
            let db = match lzip_dict_byte(dict) {
                Some(b) => b,
                None => {
                    ctx.metric("skipped_unrepresentable_dict", 1);
                    return None;
                }
            };
            if case.knob_or("custom", 1) == 0 {
                // presets use lc3 lp0 pb2 already
            }
            stream = parsers::lzip_wrap(db, &stream, data);
            // confirm the member with the reference decoder first
            let mut d = Stream::new_lzip_decoder(u64::MAX, 0).ok()?;
            match ref_decode(&mut d, &stream, &[65536]) {
                Ok((out, true, _)) if out == data => {}
                _ => {
                    ctx.metric("skipped_reference_rejects_wrapped_member", 1);
                    return None;
                }
            }
        }
    }
    ctx.bytes("stream", &stream);
    structure_reach(ctx, &rc.fmt, &stream);
    ctx.nontrivial = true;
    let comp = reader_component(&rc);
    let d = decode(&rc, &Arc::new(stream), &case.src_policy, &[], data.len(), data.len() + (1 << 20), ctx.keep_log);
    ctx.absorb("source", &d.stats);
    ctx.bytes("out", &d.out);
    universal_decode_violation(&rc, &d).or_else(|| match &d.end {
        End::Eof if d.out == data => None,
        End::Eof => Some(Violation::new("reference-stream-misdecoded", comp, case.fmt.clone(), format!("decoded {} bytes, expected {}, first difference at {}", d.out.len(), data.len(), first_diff(&d.out, data)))),
        End::Err(k, m) => Some(Violation::new("reference-stream-rejected", comp, format!("{}:{k:?}:{m}", case.fmt), format!("a stream produced by liblzma ({}) fails after {} of {} bytes: {m}", case.fmt, d.out.len(), data.len()))),
        _ => None,
    })
}

fn preset_dict_size(preset: i64) -> u32 {
    [1u32 << 18, 1 << 20, 1 << 21, 1 << 22, 1 << 22, 1 << 23, 1 << 23, 1 << 24, 1 << 25, 1 << 26][preset.clamp(0, 9) as usize]
}

/// Smallest LZIP dictionary byte whose size is >= dict (None if > 512 MiB).
fn lzip_dict_byte(dict: u32) -> Option<u8> {
    let mut best: Option<(u32, u8)> = None;
    for log in 12u8..=29 {
        for frac in 0u8..=7 {
            let b = (frac << 5) | log;
            if let Some(sz) = parsers::lzip_dict_size(b) {
                if sz >= dict && best.map(|(s, _)| sz < s).unwrap_or(true) {
                    best = Some((sz, b));
                }
            }
        }
    }
    best.map(|x| x.1)
}

// ---------------------------------------------------------------------------------------------
// C11
// ---------------------------------------------------------------------------------------------

fn our_filter(case: &Case, data: &[u8]) -> Result<Vec<u8>, Violation> {
    let comp = writer_component(case);
    match guarded(|| codec::encode_vec(case, data)) {
        Ok(Ok(v)) => Ok(v),
        Ok(Err((stage, e))) => Err(Violation::new("writer-error", comp, format!("{stage}:{:?}", e.kind()), format!("filter writer failed: {e}"))),
        Err((loc, msg)) => Err(classify_panic(comp, &loc, &msg)),
    }
}

fn filter_inverse(case: &Case, data: &[u8], ctx: &mut Ctx) -> Option<Violation> {
    let filtered = match our_filter(case, data) {
        Ok(f) => f,
        Err(v) => return Some(v),
    };
    ctx.bytes("filtered", &filtered);
    ctx.nontrivial = filtered != data;
    let comp = reader_component(case);
    if filtered.len() != data.len() {
        return Some(Violation::new("filter-changes-length", writer_component(case), fmt_tag(case), format!("{} bytes in, {} bytes out", data.len(), filtered.len())));
    }
    let d = decode(case, &Arc::new(filtered), &case.src_policy, &[], data.len(), data.len() + (1 << 20), ctx.keep_log);
    ctx.absorb("source", &d.stats);
    universal_decode_violation(case, &d).or_else(|| match &d.end {
        End::Eof if d.out == data => None,
        End::Eof => Some(Violation::new("filter-not-inverse", comp, fmt_tag(case), format!("start offset / distance {}: decoded differs from the original at {} ({} of {} bytes)", case.opt.filters[0].1, first_diff(&d.out, data), d.out.len(), data.len()))),
        End::Err(k, m) => Some(Violation::new("filter-reader-error", comp, format!("{k:?}:{m}"), format!("filter reader failed: {m}"))),
        _ => None,
    })
}

/// What liblzma's filter produces for the same input: liblzma does not allow a BCJ or delta
/// filter to be last in a chain, so LZMA2 is used as a lossless carrier:
/// filtered = raw_decode([lzma2], raw_encode([filter, lzma2], x)).
fn ref_filter(case: &Case, data: &[u8]) -> Result<Vec<u8>, String> {
    let mut lo = LzmaOptions::new_preset(0).map_err(|e| format!("{e:?}"))?;
    lo.dict_size(1 << 16);
    let mut fe = Filters::new();
    add_prefilters(&mut fe, &case.opt.filters[..1])?;
    fe.lzma2(&lo);
    let mut enc = Stream::new_raw_encoder(&fe).map_err(|e| format!("enc init {e:?}"))?;
    let (carrier, _, _) = ref_process(&mut enc, data, &[1 << 20], &[])?;
    let mut fd = Filters::new();
    fd.lzma2(&lo);
    let mut dec = Stream::new_raw_decoder(&fd).map_err(|e| format!("dec init {e:?}"))?;
    let (out, ended, _) = ref_decode(&mut dec, &carrier, &[1 << 20])?;
    if !ended {
        return Err("carrier did not end".into());
    }
    Ok(out)
}

fn filter_ref(case: &Case, data: &[u8], ctx: &mut Ctx) -> Option<Violation> {
    let reference = match ref_filter(case, data) {
        Ok(r) => r,
        Err(e) => {
            ctx.metric("skipped_reference_refused", 1);
            ctx.ev("ref_refused", simcore::rng::fnv1a(&e));
            return None;
        }
    };
    let ours = match our_filter(case, data) {
        Ok(f) => f,
        Err(v) => return Some(v),
    };
    ctx.bytes("filtered", &ours);
    ctx.nontrivial = reference != data;
    if ours != reference {
        return Some(Violation::new("filter-differs-from-reference", writer_component(case), fmt_tag(case), format!("start offset / distance {}: first difference to liblzma's filtered bytes at {} of {}", case.opt.filters[0].1, first_diff(&ours, &reference), data.len())));
    }
    // and the decoder direction: our reader on the reference's filtered bytes
    let d = decode(case, &Arc::new(reference), &case.src_policy, &[], data.len(), data.len() + (1 << 20), false);
    ctx.absorb("source", &d.stats);
    universal_decode_violation(case, &d).or_else(|| match &d.end {
        End::Eof if d.out == data => None,
        _ => Some(Violation::new("filter-reader-differs-from-reference", reader_component(case), fmt_tag(case), format!("decoding liblzma's filtered bytes: end {:?}, first difference at {}", d.end, first_diff(&d.out, data)))),
    })
}
