// Included (via include!) once per library instance inside a module that defines:
//   use <instance> as lz;   mod lio { pub use ...::{Read, Write}; pub fn class(&Error) -> u8 }
// Executes one case against that instance and returns plain data for comparison.

use simcore::case::{Case, Opts};
use simcore::run::guarded;
use std::num::NonZeroU64;

#[derive(Debug, Clone, PartialEq)]
pub struct XEnc {
    /// 0 ok, 1 error, 2 panic
    pub status: u8,
    pub class: u8,
    pub site: String,
    pub bytes: Vec<u8>,
}

#[derive(Debug, Clone, PartialEq)]
pub struct XDec {
    pub status: u8,
    pub class: u8,
    pub site: String,
    pub out: Vec<u8>,
}

/// A source that hands out at most `step` bytes per call and a sink that accepts at most
/// `step` bytes per call, implemented on the instance's own I/O traits (std::io or the crate's
/// no_std shims), so that `read_exact` / `write_all` of every configuration do real work.
pub struct ShortSrc<'a> {
    data: &'a [u8],
    pos: usize,
    step: usize,
}

impl lio::Read for ShortSrc<'_> {
    fn read(&mut self, buf: &mut [u8]) -> lio::Res<usize> {
        let n = buf.len().min(self.step).min(self.data.len() - self.pos);
        buf[..n].copy_from_slice(&self.data[self.pos..self.pos + n]);
        self.pos += n;
        Ok(n)
    }
}

pub struct ShortSink {
    out: Vec<u8>,
    step: usize,
}

impl lio::Write for ShortSink {
    fn write(&mut self, buf: &[u8]) -> lio::Res<usize> {
        let n = buf.len().min(self.step);
        self.out.extend_from_slice(&buf[..n]);
        Ok(n)
    }
    fn flush(&mut self) -> lio::Res<()> {
        Ok(())
    }
}

fn lzma_options(o: &Opts) -> lz::LZMAOptions {
    let mut l = lz::LZMAOptions::new(o.dict, o.lc, o.lp, o.pb, if o.mode == 0 { lz::EncodeMode::Fast } else { lz::EncodeMode::Normal }, o.nice, if o.mf == 0 { lz::MFType::HC4 } else { lz::MFType::BT4 }, o.depth);
    l.preset_dict = o.preset.as_ref().map(|p| p.gen());
    l
}

fn check_type(c: u8) -> lz::CheckType {
    match c {
        0 => lz::CheckType::None,
        1 => lz::CheckType::Crc32,
        4 => lz::CheckType::Crc64,
        _ => lz::CheckType::Sha256,
    }
}

fn filter_type(kind: u8) -> lz::FilterType {
    match kind {
        3 => lz::FilterType::Delta,
        4 => lz::FilterType::BcjX86,
        5 => lz::FilterType::BcjPPC,
        6 => lz::FilterType::BcjIA64,
        7 => lz::FilterType::BcjARM,
        8 => lz::FilterType::BcjARMThumb,
        9 => lz::FilterType::BcjSPARC,
        10 => lz::FilterType::BcjARM64,
        _ => lz::FilterType::BcjRISCV,
    }
}

fn write_pieces<W: lio::Write>(w: &mut W, data: &[u8], pieces: &[usize]) -> Result<(), u8> {
    let mut off = 0;
    for &p in pieces {
        let n = p.min(data.len() - off);
        w.write_all(&data[off..off + n]).map_err(|e| lio::class(&e))?;
        off += n;
    }
    if off < data.len() {
        w.write_all(&data[off..]).map_err(|e| lio::class(&e))?;
    }
    Ok(())
}

pub fn encode(case: &Case, data: &[u8], pieces: &[usize], bias: i32) -> XEnc {
    lz::verif::set_pos_bias(bias);
    let r = guarded(|| -> Result<Vec<u8>, u8> {
        let o = &case.opt;
        let mut out = ShortSink { out: Vec::new(), step: case.knob_or("io_step", 1 << 30).max(1) as usize };
        match case.fmt.as_str() {
            "lzma" => {
                let hdr = case.knob("hdr") != 0;
                let marker = case.knob("marker") != 0;
                let sized = case.knob("sized") != 0;
                let mut w = lz::LZMAWriter::new(&mut out, &lzma_options(o), hdr, marker, if sized { Some(data.len() as u64) } else { None }).map_err(|e| lio::class(&e))?;
                write_pieces(&mut w, data, pieces)?;
                w.finish().map_err(|e| lio::class(&e))?;
            }
            "lzma2" => {
                let mut w = lz::LZMA2Writer::new(&mut out, lz::LZMA2Options { lzma_options: lzma_options(o), chunk_size: o.unit.and_then(NonZeroU64::new) });
                write_pieces(&mut w, data, pieces)?;
                w.finish().map_err(|e| lio::class(&e))?;
            }
            "xz" => {
                let xo = lz::XZOptions { lzma_options: lzma_options(o), check_type: check_type(o.check), block_size: o.unit.and_then(NonZeroU64::new), filters: o.filters.iter().map(|&(k, p)| lz::FilterConfig { filter_type: filter_type(k), property: p }).collect() };
                let mut w = lz::XZWriter::new(&mut out, xo).map_err(|e| lio::class(&e))?;
                write_pieces(&mut w, data, pieces)?;
                w.finish().map_err(|e| lio::class(&e))?;
            }
            _ => {
                let mut w = lz::LZIPWriter::new(&mut out, lz::LZIPOptions { lzma_options: lzma_options(o), member_size: o.unit.and_then(NonZeroU64::new) });
                write_pieces(&mut w, data, pieces)?;
                w.finish().map_err(|e| lio::class(&e))?;
            }
        }
        Ok(out.out)
    });
    lz::verif::set_pos_bias(0);
    match r {
        Ok(Ok(bytes)) => XEnc { status: 0, class: 0, site: String::new(), bytes },
        Ok(Err(c)) => XEnc { status: 1, class: c, site: String::new(), bytes: vec![] },
        Err((loc, msg)) => XEnc { status: 2, class: 0, site: format!("{} {}", simcore::run::normalise_site(&loc), msg.chars().take(80).collect::<String>()), bytes: vec![] },
    }
}

fn read_all<R: lio::Read>(r: &mut R, sizes: &[usize], cap: usize, out: &mut Vec<u8>) -> Result<(), u8> {
    let maxsz = sizes.iter().copied().max().unwrap_or(4096).max(1);
    let mut buf = vec![0u8; maxsz];
    let mut i = 0;
    loop {
        let want = sizes[i % sizes.len()].max(1);
        i += 1;
        match r.read(&mut buf[..want]) {
            Ok(0) => return Ok(()),
            Ok(n) => {
                out.extend_from_slice(&buf[..n]);
                if out.len() > cap {
                    return Err(200);
                }
            }
            Err(e) => return Err(lio::class(&e)),
        }
    }
}

pub fn decode(case: &Case, stream: &[u8], total: usize, sizes: &[usize], cap: usize) -> XDec {
    let mut out = Vec::new();
    let r = guarded(|| -> Result<(), u8> {
        let o = &case.opt;
        let preset = o.preset.as_ref().map(|p| p.gen());
        let stream = ShortSrc { data: stream, pos: 0, step: case.knob_or("io_step", 1 << 30).max(1) as usize };
        match case.fmt.as_str() {
            "lzma" => {
                let mut rd = if case.knob("hdr") != 0 {
                    lz::LZMAReader::new_mem_limit(stream, u32::MAX, preset.as_deref()).map_err(|e| lio::class(&e))?
                } else {
                    let size = if case.knob("marker") != 0 { u64::MAX } else { total as u64 };
                    lz::LZMAReader::new(stream, size, o.lc, o.lp, o.pb, o.dict, preset.as_deref()).map_err(|e| lio::class(&e))?
                };
                read_all(&mut rd, sizes, cap, &mut out)
            }
            "lzma2" => {
                let mut rd = lz::LZMA2Reader::new(stream, o.dict, preset.as_deref());
                read_all(&mut rd, sizes, cap, &mut out)
            }
            "xz" => {
                let mut rd = lz::XZReader::new(stream, true);
                read_all(&mut rd, sizes, cap, &mut out)
            }
            _ => {
                let mut rd = lz::LZIPReader::new(stream).map_err(|e| lio::class(&e))?;
                read_all(&mut rd, sizes, cap, &mut out)
            }
        }
    });
    match r {
        Ok(Ok(())) => XDec { status: 0, class: 0, site: String::new(), out },
        Ok(Err(c)) => XDec { status: 1, class: c, site: String::new(), out },
        Err((loc, msg)) => XDec { status: 2, class: 0, site: format!("{} {}", simcore::run::normalise_site(&loc), msg.chars().take(80).collect::<String>()), out },
    }
}

pub fn normalize_dispatch(p: &mut [i32], off: i32) {
    lz::verif::normalize_dispatch(p, off)
}

pub fn normalize_scalar(p: &mut [i32], off: i32) {
    lz::verif::normalize_scalar(p, off)
}

pub fn direct_bits(range: u32, code: u32, buf: &[u8], pos: usize, count: u32) -> (i32, u32, u32, usize) {
    lz::verif::direct_bits_buffer(range, code, buf, pos, count)
}

pub fn probes() -> Vec<(String, u64)> {
    let p = lz::verif::take_probes();
    p.iter().enumerate().filter(|(_, v)| **v > 0).map(|(i, v)| (lz::verif::PROBE_NAMES[i].to_string(), *v)).collect()
}
