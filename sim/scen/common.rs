//! Helpers shared by the scenario families.

use crate::codec;
use simcore::case::{Case, IoFault, IoPolicy, Violation};
use simcore::io::{read_all, IoStats, ReadEnd, SimSource};
use simcore::run::{classify_panic, guarded, Ctx};
use std::io::ErrorKind;
use std::sync::Arc;

#[derive(Debug, Clone)]
pub enum End {
    Eof,
    Err(ErrorKind, String),
    Overflow,
    Spin,
    Panic(String, String),
}

impl End {
    pub fn is_err(&self) -> bool {
        matches!(self, End::Err(..))
    }
    pub fn tag(&self) -> u64 {
        match self {
            End::Eof => 1,
            End::Err(k, _) => 100 + *k as u64,
            End::Overflow => 3,
            End::Spin => 4,
            End::Panic(..) => 5,
        }
    }
}

pub struct Decoded {
    pub out: Vec<u8>,
    pub end: End,
    pub stats: IoStats,
    /// bytes the source handed out
    pub consumed: usize,
}

/// Decodes `stream` with the reader the case describes through a `SimSource`.
pub fn decode(case: &Case, stream: &Arc<Vec<u8>>, policy: &IoPolicy, faults: &[IoFault], total: usize, cap: usize, keep_log: bool) -> Decoded {
    let src = SimSource::from_arc(stream.clone(), policy, faults);
    let stats = src.stats();
    stats.lock().unwrap().keep_log = keep_log;
    let sizes = case.read_sizes();
    let mut out = Vec::new();
    let r = guarded(|| {
        let mut src = src;
        src.call_cap = 50_000_000;
        match codec::make_reader(case, src, total) {
            Ok(mut rd) => match read_all(&mut rd, &sizes, cap, &mut out) {
                ReadEnd::Eof => End::Eof,
                ReadEnd::Err(e) => End::Err(e.kind(), e.to_string()),
                ReadEnd::Overflow => End::Overflow,
                ReadEnd::Spin => End::Spin,
            },
            Err(e) => End::Err(e.kind(), e.to_string()),
        }
    });
    let end = match r {
        Ok(e) => e,
        Err((loc, msg)) => End::Panic(loc, msg),
    };
    let st = stats.lock().unwrap().clone();
    let consumed = st.bytes as usize;
    Decoded { out, end, stats: st, consumed }
}

pub fn is_prefix(out: &[u8], orig: &[u8]) -> bool {
    out.len() <= orig.len() && orig[..out.len()] == *out
}

pub fn first_diff(a: &[u8], b: &[u8]) -> usize {
    a.iter().zip(b.iter()).position(|(x, y)| x != y).unwrap_or(a.len().min(b.len()))
}

pub fn reader_component(case: &Case) -> &'static str {
    codec::component(&case.fmt, false)
}

pub fn writer_component(case: &Case) -> &'static str {
    codec::component(&case.fmt, true)
}

/// Violations every decode must be free of, whatever the scenario: panic, unbounded output,
/// sticky Interrupted.
pub fn universal_decode_violation(case: &Case, d: &Decoded) -> Option<Violation> {
    let comp = reader_component(case);
    match &d.end {
        End::Panic(loc, msg) => Some(classify_panic(comp, loc, msg)),
        End::Overflow => Some(Violation::new("unbounded-output", comp, "output-cap", format!("more than the cap of bytes delivered ({} so far)", d.out.len()))),
        End::Spin => Some(Violation::new("hang", comp, "sticky-interrupted", "reader keeps answering Interrupted (1000 in a row)")),
        _ => None,
    }
}

/// Encodes the case's input with a plain single write into memory; a panic or error here is
/// reported as a violation of the writer.
pub fn prepare_stream(case: &Case, data: &[u8]) -> Result<Vec<u8>, Violation> {
    let comp = writer_component(case);
    match guarded(|| codec::encode_vec(case, data)) {
        Ok(Ok(v)) => Ok(v),
        Ok(Err((stage, e))) => Err(Violation::new("writer-error", comp, format!("{stage}:{:?}", e.kind()), format!("writer failed on a fault-free sink: {e}"))),
        Err((loc, msg)) => Err(classify_panic(comp, &loc, &msg)),
    }
}

pub fn fmt_tag(case: &Case) -> String {
    if case.fmt == "lzma" {
        format!("lzma/h{}m{}s{}", case.knob("hdr"), case.knob("marker"), case.knob("sized"))
    } else if case.fmt == "bcj" || case.fmt == "delta" {
        let (k, _) = case.opt.filters.first().copied().unwrap_or((0, 0));
        format!("{}/{}", case.fmt, codec::bcj_name(k))
    } else {
        case.fmt.clone()
    }
}

pub fn absorb(ctx: &mut Ctx, actor: &str, st: &IoStats) {
    ctx.absorb(actor, st);
}

/// A file of `n` concatenated XZ streams (knob "streams"), each holding a piece of `data`, joined
/// by stream padding of a multiple of four zero bytes (drawn from knob "pad_seed"). Returns the
/// file and the (start, end) offsets of the streams. With n <= 1 this is `prepare_stream`.
pub fn prepare_file(case: &Case, data: &[u8]) -> Result<(Vec<u8>, Vec<(usize, usize)>), Violation> {
    let n = case.knob_or("streams", 1).max(1) as usize;
    if case.fmt != "xz" || n <= 1 {
        let s = prepare_stream(case, data)?;
        let l = s.len();
        return Ok((s, vec![(0, l)]));
    }
    let mut rng = simcore::rng::Rng::new(case.knob("pad_seed") as u64 ^ 0x9A);
    let mut file = Vec::new();
    let mut spans = Vec::new();
    let per = data.len() / n;
    for i in 0..n {
        let piece = if i + 1 == n { &data[i * per..] } else { &data[i * per..(i + 1) * per] };
        let s = prepare_stream(case, piece)?;
        let start = file.len();
        file.extend_from_slice(&s);
        spans.push((start, file.len()));
        if i + 1 < n || rng.pct(30) {
            let pad = *rng.pick(&[0usize, 0, 4, 8, 12]);
            file.extend(std::iter::repeat(0u8).take(pad));
        }
    }
    Ok((file, spans))
}
