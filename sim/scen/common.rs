//! Helpers shared by the scenario families.

use crate::codec;
use simcore::case::{Case, IoFault, IoPolicy, Violation};
use simcore::io::{read_all, IoStats, ReadEnd, SimSource};
use simcore::run::{classify_panic, guarded, Ctx};
use std::io::ErrorKind;
use std::sync::Arc;

#[derive(Debug, Clone)]
pub enum End {
    Eof,
    Err(ErrorKind, String),
    Overflow,
    Spin,
    Panic(String, String),
}

impl End {
    pub fn is_err(&self) -> bool {
        matches!(self, End::Err(..))
    }
    pub fn tag(&self) -> u64 {
        match self {
            End::Eof => 1,
            End::Err(k, _) => 100 + *k as u64,
            End::Overflow => 3,
            End::Spin => 4,
            End::Panic(..) => 5,
        }
    }
}

pub struct Decoded {
    pub out: Vec<u8>,
    pub end: End,
    pub stats: IoStats,
    /// bytes the source handed out
    pub consumed: usize,
}

/// Decodes `stream` with the reader the case describes through a `SimSource`.
pub fn decode(case: &Case, stream: &Arc<Vec<u8>>, policy: &IoPolicy, faults: &[IoFault], total: usize, cap: usize, keep_log: bool) -> Decoded {
    let src = SimSource::from_arc(stream.clone(), policy, faults);
    let stats = src.stats();
    stats.lock().unwrap().keep_log = keep_log;
    let sizes = case.read_sizes();
    let mut out = Vec::new();
    let r = guarded(|| {
        let mut src = src;
        src.call_cap = 50_000_000;
        match codec::make_reader(case, src, total) {
            Ok(mut rd) => match read_all(&mut rd, &sizes, cap, &mut out) {
                ReadEnd::Eof => End::Eof,
                ReadEnd::Err(e) => End::Err(e.kind(), e.to_string()),
                ReadEnd::Overflow => End::Overflow,
                ReadEnd::Spin => End::Spin,
            },
            Err(e) => End::Err(e.kind(), e.to_string()),
        }
    });
    let end = match r {
        Ok(e) => e,
        Err((loc, msg)) => End::Panic(loc, msg),
    };
    let st = stats.lock().unwrap().clone();
    let consumed = st.bytes as usize;
    Decoded { out, end, stats: st, consumed }
}

pub fn is_prefix(out: &[u8], orig: &[u8]) -> bool {
    out.len() <= orig.len() && orig[..out.len()] == *out
}

pub fn first_diff(a: &[u8], b: &[u8]) -> usize {
    a.iter().zip(b.iter()).position(|(x, y)| x != y).unwrap_or(a.len().min(b.len()))
}

pub fn reader_component(case: &Case) -> &'static str {
    codec::component(&case.fmt, false)
}

pub fn writer_component(case: &Case) -> &'static str {
    codec::component(&case.fmt, true)
}

/// Violations every decode must be free of, whatever the scenario: panic, unbounded output,
/// sticky Interrupted.
pub fn universal_decode_violation(case: &Case, d: &Decoded) -> Option<Violation> {
    let comp = reader_component(case);
    match &d.end {
        End::Panic(loc, msg) => Some(classify_panic(comp, loc, msg)),
        End::Overflow => Some(Violation::new("unbounded-output", comp, "output-cap", format!("more than the cap of bytes delivered ({} so far)", d.out.len()))),
        End::Spin => Some(Violation::new("hang", comp, "sticky-interrupted", "reader keeps answering Interrupted (1000 in a row)")),
        _ => None,
    }
}

/// Encodes the case's input with a plain single write into memory; a panic or error here is
/// reported as a violation of the writer.
pub fn prepare_stream(case: &Case, data: &[u8]) -> Result<Vec<u8>, Violation> {
    let comp = writer_component(case);
    match guarded(|| codec::encode_vec(case, data)) {
        Ok(Ok(v)) => Ok(v),
        Ok(Err((stage, e))) => Err(Violation::new("writer-error", comp, format!("{stage}:{:?}", e.kind()), format!("writer failed on a fault-free sink: {e}"))),
        Err((loc, msg)) => Err(classify_panic(comp, &loc, &msg)),
    }
}

pub fn fmt_tag(case: &Case) -> String {
    if case.fmt == "lzma" {
        format!("lzma/h{}m{}s{}", case.knob("hdr"), case.knob("marker"), case.knob("sized"))
    } else if case.fmt == "bcj" || case.fmt == "delta" {
        let (k, _) = case.opt.filters.first().copied().unwrap_or((0, 0));
        format!("{}/{}", case.fmt, codec::bcj_name(k))
    } else {
        case.fmt.clone()
    }
}

pub fn absorb(ctx: &mut Ctx, actor: &str, st: &IoStats) {
    ctx.absorb(actor, st);
}

/// A file of `n` concatenated XZ streams (knob "streams"), each holding a piece of `data`, joined
/// by stream padding of a multiple of four zero bytes (drawn from knob "pad_seed"). Returns the
/// file and the (start, end) offsets of the streams. With n <= 1 this is `prepare_stream`.
pub fn prepare_file(case: &Case, data: &[u8]) -> Result<(Vec<u8>, Vec<(usize, usize)>), Violation> {
    let n = case.knob_or("streams", 1).max(1) as usize;
    if case.fmt != "xz" || n <= 1 {
        let s = prepare_stream(case, data)?;
        let l = s.len();
        return Ok((s, vec![(0, l)]));
    }
    let mut rng = simcore::rng::Rng::new(case.knob("pad_seed") as u64 ^ 0x9A);
    let mut file = Vec::new();
    let mut spans = Vec::new();
    let per = data.len() / n;
    for i in 0..n {
        let piece = if i + 1 == n { &data[i * per..] } else { &data[i * per..(i + 1) * per] };
        let s = prepare_stream(case, piece)?;
        let start = file.len();
        file.extend_from_slice(&s);
        spans.push((start, file.len()));
        if i + 1 < n || rng.pct(30) {
            let pad = *rng.pick(&[0usize, 0, 4, 8, 12]);
            file.extend(std::iter::repeat(0u8).take(pad));
        }
    }
    Ok((file, spans))
}

/// Reach measure: what the stream a reader is about to see (or a writer produced) is made of.
/// Counted as metrics ("struct.*"), never judged: LZMA2 chunk kinds by control-byte class
/// (a class stuck at zero means no run exercises that reset level), XZ blocks per stream, filter
/// ids, check types, LZIP members. `kind` is "lzma2", "xz", "lzip" or anything else (ignored).
pub fn structure_reach(ctx: &mut Ctx, kind: &str, bytes: &[u8]) {
    use simcore::parsers;
    fn chunks(ctx: &mut Ctx, s: &[u8]) {
        if let Ok((cs, _)) = parsers::lzma2_chunks(s) {
            for (i, c) in cs.iter().enumerate() {
                let class = match c.control {
                    1 => "struct.lzma2.ctl01_stored_dict_reset",
                    2 => "struct.lzma2.ctl02_stored",
                    0x80..=0x9F => "struct.lzma2.ctl80_lzma_continue",
                    0xA0..=0xBF => "struct.lzma2.ctlA0_state_reset",
                    0xC0..=0xDF => "struct.lzma2.ctlC0_state_reset_props",
                    _ => "struct.lzma2.ctlE0_all_reset",
                };
                ctx.metric(class, 1);
                if i > 0 && c.dict_reset() {
                    ctx.metric("struct.lzma2.dict_reset_not_first", 1);
                }
                if i > 0 && (0xC0..=0xDF).contains(&c.control) {
                    ctx.metric("struct.lzma2.ctlC0_not_first", 1);
                }
                if c.is_lzma() && c.unpacked > (1 << 16) {
                    ctx.metric("struct.lzma2.lzma_chunk_over_64k_unpacked", 1);
                }
            }
        }
    }
    match kind {
        "lzma2" => chunks(ctx, bytes),
        "xz" => {
            if let Ok(streams) = parsers::xz_file(bytes) {
                ctx.metric(if streams.len() > 1 { "struct.xz.multi_stream_file" } else { "struct.xz.single_stream_file" }, 1);
                for st in &streams {
                    ctx.metric(match st.check { 0 => "struct.xz.check_none", 1 => "struct.xz.check_crc32", 4 => "struct.xz.check_crc64", 10 => "struct.xz.check_sha256", _ => "struct.xz.check_other" }, 1);
                    ctx.metric(match st.blocks.len() { 0 => "struct.xz.stream_0_blocks", 1 => "struct.xz.stream_1_block", _ => "struct.xz.stream_many_blocks" }, 1);
                    if st.blocks.len() >= 128 {
                        ctx.metric("struct.xz.stream_128_or_more_blocks", 1);
                    }
                    for b in &st.blocks {
                        if b.filters.len() > 1 {
                            ctx.metric("struct.xz.block_with_prefilter", 1);
                        }
                        if b.compressed_size_field.is_some() || b.uncompressed_size_field.is_some() {
                            ctx.metric("struct.xz.block_header_with_sizes", 1);
                        }
                        if b.padding > 0 {
                            ctx.metric("struct.xz.block_with_padding", 1);
                        }
                        if b.data_start + b.data_len <= bytes.len() {
                            chunks(ctx, &bytes[b.data_start..b.data_start + b.data_len]);
                        }
                    }
                }
            }
        }
        "lzip" => {
            if let Some(ms) = parsers::lzip_members(bytes) {
                ctx.metric(match ms.len() { 0 => "struct.lzip.0_members", 1 => "struct.lzip.1_member", _ => "struct.lzip.many_members" }, 1);
                if ms.iter().any(|m| m.data_size == 0) {
                    ctx.metric("struct.lzip.empty_member", 1);
                }
            }
        }
        _ => {}
    }
}
