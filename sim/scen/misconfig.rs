//! C19: a writer that reports success has produced a decodable stream - also for option values
//! outside the documented ranges. This is a boundary grid over the public option structs run
//! through the same harness; the simulator adds little here (see DESIGN.md C19).

use crate::codec;
use crate::common::*;
use simcore::case::{Case, InputSpec, IoPolicy, Violation, WOp};
use simcore::io::SimSink;
use simcore::rng::Rng;
use simcore::run::{classify_panic, guarded, Ctx, RunResult};
use std::sync::Arc;

pub fn gen(prop: &str, scen: &str, _k: u64, seed: u64, tier: &str) -> Case {
    let mut rng = Rng::new(seed);
    let mut case = Case { prop: prop.into(), scen: scen.into(), seed, ..Default::default() };
    let big = tier == "thorough";
    case.fmt = (*rng.pick(&["lzma", "lzma2", "xz", "lzip"])).into();
    if case.fmt == "lzma" {
        match rng.below(3) {
            0 => {
                case.set("hdr", 1);
                case.set("marker", 1);
            }
            1 => {
                case.set("hdr", 1);
                case.set("sized", 1);
            }
            _ => case.set("marker", 1),
        }
    }
    // start from sane defaults, then push one to three fields to a boundary
    case.opt.dict = *rng.pick(&[4096u32, 65536]);
    case.opt.nice = 32;
    case.opt.mode = rng.below(2) as u8;
    case.opt.mf = rng.below(2) as u8;
    let n = rng.range(1, 3);
    for _ in 0..n {
        match rng.below(11) {
            0 => case.opt.lc = *rng.pick(&[0u32, 4, 5, 8, 9, 100]),
            1 => case.opt.lp = *rng.pick(&[0u32, 3, 4, 5, 100]),
            2 => case.opt.pb = *rng.pick(&[0u32, 4, 5, 100]),
            3 => {
                case.opt.lc = *rng.pick(&[0u32, 1, 2, 3, 4]);
                case.opt.lp = *rng.pick(&[0u32, 1, 2, 3, 4]);
            }
            4 => case.opt.dict = *rng.pick(&[0u32, 1, 4095, 4096, 4097, 65535, if big { 0xFFFF_FFF0 } else { 4096 }, if big { 0xFFFF_FFFF } else { 4097 }, if big { 1 << 31 } else { 5000 }]),
            5 => case.opt.nice = *rng.pick(&[0u32, 1, 2, 3, 4, 7, 8, 273, 274, 1000]),
            6 => case.opt.depth = *rng.pick(&[-1i32, i32::MIN, 0, 1, i32::MAX]),
            7 if case.fmt == "xz" => {
                let k = *rng.pick(&[3u8, 3, 4, 5, 6, 7, 8, 9, 10, 11]);
                let p = if k == 3 { *rng.pick(&[0u32, 1, 256, 257, 1000]) } else { *rng.pick(&[0u32, 1, 2, 3, 5, 8, 15, 16, 0xFFFF_FFFF]) };
                case.opt.filters.push((k, p));
            }
            8 if case.fmt == "xz" => {
                let cnt = rng.range(2, 5);
                for _ in 0..cnt {
                    case.opt.filters.push((3, 1));
                }
            }
            9 if case.fmt == "lzma2" || case.fmt == "lzma" && case.knob("hdr") == 0 => {
                case.opt.preset = Some(InputSpec::new("text", *rng.pick(&[0usize, 0, 1, 5000, 70000]), 3));
            }
            10 => case.opt.unit = Some(*rng.pick(&[1u64, 4096, u64::MAX])),
            _ => {}
        }
    }
    if case.fmt == "lzip" && case.opt.dict > (64 << 20) {
        // LZIP clamps an over-large dictionary to 512 MiB and then really allocates it (about
        // 2.7 GiB and two minutes per run, more than the watchdog allows on a busy machine):
        // the other formats cover the "dictionary far too large" value, LZIP gets a moderate one
        case.opt.dict = (64 << 20) + 1;
        if (seed >> 11) % 8 != 0 {
            case.opt.dict = 65535;
        }
    }
    let mut len = *rng.pick(&[0usize, 1, 5, 100, 5000, 70000, if big { 700_000 } else { 20000 }]);
    if rng.pct(4) && case.opt.dict <= 65536 {
        // long enough for the encoder's window to move (boundary values of lc/lp/pb matter for
        // positions, and positions only change their low bits when the window moves)
        len = rng.urange(280_000, 460_000);
        if case.opt.mode == 1 && case.opt.nice > 64 {
            case.opt.depth = 4;
        }
    }
    case.input = InputSpec::new(*rng.pick(&["text", "random", "zero", "mixed"]), len, rng.next_u64());
    case.input.p1 = 300;
    case.wops = if rng.pct(50) { vec![] } else { vec![WOp::W(len / 3), WOp::F, WOp::W(len / 2)] };
    case
}

pub fn exec(case: &Case, keep_log: bool) -> RunResult {
    let mut ctx = Ctx::new(keep_log);
    let data = case.input.gen();
    ctx.ev("input_len", data.len() as u64);
    ctx.nontrivial = true;
    let comp = writer_component(case);
    let sink = SimSink::plain();
    let (out, _) = sink.handle();
    let r = guarded(|| codec::encode_to(case, &data, sink));
    let v = match r {
        Err((loc, msg)) => Some(classify_panic(comp, &loc, &msg)),
        Ok(Err((stage, e))) => {
            // an error is one of the two acceptable outcomes
            ctx.fire("writer_rejected_options", 1);
            ctx.ev("rejected", simcore::rng::fnv1a(&format!("{stage}:{:?}", e.kind())));
            None
        }
        Ok(Ok(())) => {
            let stream = Arc::new(out.lock().unwrap().clone());
            ctx.bytes("stream", &stream);
            let d = decode(case, &stream, &IoPolicy::default(), &[], data.len(), data.len() + (1 << 20), false);
            match &d.end {
                End::Panic(loc, msg) => Some(classify_panic(reader_component(case), loc, msg)),
                End::Eof if d.out == data => None,
                End::Eof => Some(Violation::new("accepted-but-undecodable", comp, "wrong-bytes", format!("{}: writer reported success, own reader returns {} bytes, expected {}, first difference at {}", describe(case), d.out.len(), data.len(), first_diff(&d.out, &data)))),
                End::Err(_, m) => Some(Violation::new("accepted-but-undecodable", comp, format!("reader:{m}"), format!("{}: writer reported success, own reader fails after {} of {} bytes: {m}", describe(case), d.out.len(), data.len()))),
                _ => Some(Violation::new("accepted-but-undecodable", comp, "overflow", describe(case))),
            }
        }
    };
    codec::take_probes(&mut ctx);
    ctx.finish(v)
}

fn describe(case: &Case) -> String {
    let o = &case.opt;
    format!("{} lc={} lp={} pb={} dict={} nice={} depth={} mode={} mf={} unit={:?} filters={:?} preset={:?}", fmt_tag(case), o.lc, o.lp, o.pb, o.dict, o.nice, o.depth, o.mode, o.mf, o.unit, o.filters, o.preset.as_ref().map(|p| p.len))
}
