//! lzsim-st: single-threaded scenario families over the `lz_std` instance (default features,
//! verification guard on) with liblzma as the second party.

use lz_std as lz;
use simcore::case::Case;
use simcore::orch::{Engine, PropMeta};
use simcore::run::RunResult;

#[global_allocator]
static ALLOC: simcore::alloc::SimAlloc = simcore::alloc::SimAlloc;

#[path = "../../scen/codec.rs"]
mod codec;
#[path = "../../scen/common.rs"]
mod common;
#[path = "../../scen/io_faults.rs"]
mod io_faults;
#[path = "../../scen/optgen.rs"]
mod optgen;

struct St;

fn tier_of(case: &Case) -> &'static str {
    if case.knob("tier_thorough") != 0 {
        "thorough"
    } else {
        "quick"
    }
}

impl Engine for St {
    fn name(&self) -> &'static str {
        "lzsim-st"
    }

    fn properties(&self) -> Vec<&'static str> {
        vec!["C05"]
    }

    fn plan(&self, prop: &str, tier: &str) -> Vec<(String, u64)> {
        let t = tier == "thorough";
        let p = |s: &str, q: u64, th: u64| (s.to_string(), if t { th } else { q });
        match prop {
            "C05" => vec![p("io.trunc", 1500, 20000), p("io.read_err", 1500, 20000), p("io.read_benign", 4000, 150000), p("io.sink_err", 1500, 20000), p("io.sink_benign", 4000, 150000)],
            _ => vec![],
        }
    }

    fn gen(&self, prop: &str, scen: &str, k: u64, seed: u64) -> Case {
        let tier = if std::env::var("VERIF_TIER").map(|t| t == "thorough").unwrap_or(false) { "thorough" } else { "quick" };
        let mut c = match prop {
            "C05" => io_faults::gen(scen, k, seed, tier),
            _ => Case::default(),
        };
        c.prop = prop.to_string();
        if tier == "thorough" {
            c.set("tier_thorough", 1);
        }
        c
    }

    fn exec(&self, case: &Case, keep_log: bool) -> RunResult {
        let _ = tier_of(case);
        match case.scen.split('.').next().unwrap_or("") {
            "io" => io_faults::exec(case, keep_log),
            _ => RunResult::default(),
        }
    }

    fn meta(&self, prop: &str) -> PropMeta {
        let real = vec!["all of /repo/src (lz_std instance: default features, cfg lzma_rust2_verif)", "liblzma 5.x (static C library) as reference where used"];
        let stubs = vec!["SimSource / SimSink in place of the caller's Read / Write", "counting, junk-filling global allocator over System"];
        match prop {
            "C05" => PropMeta {
                level: "fault_enumeration",
                rule: "one run = one generated valid stream (format x options x input class from the seed) x an enumerated set of fault points: io.trunc cuts the stream at every offset (all offsets for streams up to the point budget, otherwise first/last quarter of the budget plus random ones); io.read_err / io.sink_err inject an error at every source/sink call index of a fault-free dry run of the same history (same budget rule); io.read_benign / io.sink_benign apply short and Interrupted I/O to every call. A sub-case is non-trivial when the fault lies inside the stream's activity; distinct = distinct (fault point, outcome class, bytes delivered) per stream plus distinct event-log digests of the benign runs in which at least one benign fault fired on non-empty data.".into(),
                assumptions: vec!["the harness read loop retries Interrupted exactly like Read::read_to_end; the harness write loop like Write::write_all".into(), "a file cut exactly at an LZIP member boundary is a complete LZIP file and not a truncation".into()],
                real,
                stubs,
                exhaustive_part: Some("every truncation offset and every call index for streams within the per-run point budget (512 / 96 / 64 quick; 8192 / 100000 / 4000 thorough)".into()),
            },
            _ => PropMeta { level: "exploration", rule: String::new(), assumptions: vec![], real, stubs, exhaustive_part: None },
        }
    }
}

fn main() {
    simcore::orch::main(&St)
}
