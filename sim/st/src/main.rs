//! lzsim-st: single-threaded scenario families over the `lz_std` instance (default features,
//! verification guard on) with liblzma as the second party.

use lz_std as lz;
use simcore::case::Case;
use simcore::orch::{Engine, PropMeta};
use simcore::run::RunResult;

#[global_allocator]
static ALLOC: simcore::alloc::SimAlloc = simcore::alloc::SimAlloc;

#[path = "../../scen/bcj2.rs"]
mod bcj2;
#[path = "../../scen/codec.rs"]
mod codec;
#[path = "../../scen/common.rs"]
mod common;
#[path = "../../scen/corrupt.rs"]
mod corrupt;
#[path = "../../scen/hostile.rs"]
mod hostile;
#[path = "../../scen/interop.rs"]
mod interop;
#[path = "../../scen/io_faults.rs"]
mod io_faults;
#[path = "../../scen/memory.rs"]
mod memory;
#[path = "../../scen/misconfig.rs"]
mod misconfig;
#[path = "../../scen/oob.rs"]
mod oob;
#[path = "../../scen/optgen.rs"]
mod optgen;
#[path = "../../scen/rt.rs"]
mod rt;

struct St;

fn tier_of(case: &Case) -> &'static str {
    if case.knob("tier_thorough") != 0 {
        "thorough"
    } else {
        "quick"
    }
}

impl Engine for St {
    fn name(&self) -> &'static str {
        "lzsim-st"
    }

    fn properties(&self) -> Vec<&'static str> {
        vec!["C01", "C02", "C03", "C04", "C05", "C06", "C07", "C11", "C12", "C13", "C15", "C16", "C17", "C18", "C19"]
    }

    fn plan(&self, prop: &str, tier: &str) -> Vec<(String, u64)> {
        let t = tier == "thorough";
        let p = |s: &str, q: u64, th: u64| (s.to_string(), if t { th } else { q });
        match prop {
            "C05" => vec![p("io.trunc", 5000, 30000), p("io.read_err", 5000, 30000), p("io.read_benign", 15000, 200000), p("io.sink_err", 5000, 30000), p("io.sink_benign", 15000, 200000), p("bcj2.io", 4000, 50000)],
            "C01" => vec![p("rt.codec", 40000, 500_000), p("rt.codec.bias", 10000, 150_000), p("rt.codec.big", 300, 3000)],
            "C02" => vec![p("rt.container", 40000, 500_000), p("rt.container.bias", 8000, 100_000), p("rt.container.big", 200, 2000)],
            "C03" => vec![p("interop.ours_to_ref", 15000, 200_000), p("interop.ref_to_ours", 8000, 120_000)],
            "C11" => vec![p("filter.inverse", 20000, 250_000), p("filter.ref", 12000, 150_000), p("bcj2.roundtrip", 6000, 80_000)],
            "C04" => vec![p("corrupt.bitflip", 500, 4000), p("corrupt.random", 30000, 400_000), p("corrupt.field", 20000, 250_000), p("corrupt.nonformat", 10000, 100_000)],
            "C06" => vec![p("hostile.random", 60000, 1_000_000), p("hostile.mutated", 30000, 400_000), p("hostile.fields", 12000, 150_000), p("hostile.params", 12000, 150_000), p("hostile.grammar", 40000, 500_000), p("hostile.many", 60, 300)],
            "C07" => vec![p("history.write", 12000, 120_000), p("history.read", 12000, 120_000), p("bcj2.history", 3000, 40_000)],
            "C12" => vec![p("concat.xz", 40000, 400_000), p("concat.lzip", 20000, 200_000)],
            "C13" => vec![p("determ.repeat", 12000, 150_000), p("determ.partition", 12000, 150_000)],
            "C16" => vec![p("exact", 80000, 1_000_000)],
            "C15" => vec![p("oob.window", 160, 3000), p("oob.movewin", 1500, 20_000), p("oob.stopmove", 400, 6000), p("oob.encode", 5000, 100_000), p("oob.decode", 25000, 600_000), p("oob.direct_bits", 20000, 300_000), p("oob.chunkend", 3000, 30_000)],
            "C17" => vec![p("mem.encoder", 1200, 8000), p("mem.decoder.lzma", 4000, 60000), p("mem.decoder.lzma2", 2000, 30000), p("mem.limit", 8000, 100000), p("mem.estimator", 2000, 40000)],
            "C19" => vec![p("misconfig", 30000, 300_000)],
            "C18" => vec![p("sizes", 40000, 600_000)],
            _ => vec![],
        }
    }

    fn gen(&self, prop: &str, scen: &str, k: u64, seed: u64) -> Case {
        let tier = if std::env::var("VERIF_TIER").map(|t| t == "thorough").unwrap_or(false) { "thorough" } else { "quick" };
        let mut c = match prop {
            _ if scen.starts_with("bcj2") => bcj2::gen(prop, scen, k, seed, tier),
            "C05" => io_faults::gen(scen, k, seed, tier),
            "C01" | "C02" | "C07" | "C12" | "C13" | "C16" | "C18" => rt::gen(prop, scen, k, seed, tier),
            "C03" | "C11" => interop::gen(prop, scen, k, seed, tier),
            "C04" => corrupt::gen(prop, scen, k, seed, tier),
            "C06" => hostile::gen(prop, scen, k, seed, tier),
            "C15" => oob::gen(prop, scen, k, seed, tier),
            "C17" => memory::gen(prop, scen, k, seed, tier),
            "C19" => misconfig::gen(prop, scen, k, seed, tier),
            _ => Case::default(),
        };
        c.prop = prop.to_string();
        // XZ with an x86 BCJ pre-filter: in a third of the runs the data is dense in what that
        // filter keeps state about (opcode clusters), whatever the scenario drew
        if matches!(prop, "C02" | "C05" | "C07" | "C13" | "C16" | "C18") && c.fmt == "xz" && c.opt.filters.iter().any(|f| f.0 == 4) && (seed >> 9) % 3 == 0 && c.input.len > 0 && !matches!(c.input.class.as_str(), "empty" | "sandwich") {
            c.input.class = "x86soup".into();
        }
        // XZ files of 128 and more blocks: the record count of the index needs a two-byte integer
        // only from there. Rare, because such a file takes half a megabyte of input even with
        // the smallest block size (the writer raises the block size to the dictionary size).
        if matches!(prop, "C02" | "C16" | "C18") && c.fmt == "xz" && matches!(scen, "rt.container" | "exact" | "sizes") && (seed >> 17) % 250 == 0 {
            c.opt.dict = 4096;
            c.opt.unit = Some(4096);
            c.opt.preset = None;
            c.input.class = (*["periodic", "text", "lowent"].get(((seed >> 29) % 3) as usize).unwrap()).into();
            c.input.p1 = 1 + (seed >> 33) % 700;
            c.input.len = 4096 * 127 + 1 + ((seed >> 41) % 60_000) as usize;
            c.wops.clear();
        }
        if tier == "thorough" {
            c.set("tier_thorough", 1);
        }
        c
    }

    fn exec(&self, case: &Case, keep_log: bool) -> RunResult {
        let _ = tier_of(case);
        match case.scen.split('.').next().unwrap_or("") {
            "io" => io_faults::exec(case, keep_log),
            "rt" | "history" | "determ" | "exact" | "sizes" | "concat" => rt::exec(case, keep_log),
            "interop" | "filter" => interop::exec(case, keep_log),
            "bcj2" => bcj2::exec(case, keep_log),
            "corrupt" => corrupt::exec(case, keep_log),
            "hostile" => hostile::exec(case, keep_log),
            "mem" => memory::exec(case, keep_log),
            "oob" => oob::exec(case, keep_log),
            "misconfig" => misconfig::exec(case, keep_log),
            _ => RunResult::default(),
        }
    }

    fn meta(&self, prop: &str) -> PropMeta {
        let real = vec!["all of /repo/src (lz_std instance: default features, cfg lzma_rust2_verif)", "liblzma 5.x (static C library) as reference where used"];
        let stubs = vec!["SimSource / SimSink in place of the caller's Read / Write", "counting, junk-filling global allocator over System"];
        match prop {
            "C05" => PropMeta {
                level: "fault_enumeration",
                rule: "one run = one generated valid stream (format x options x input class from the seed) x an enumerated set of fault points: io.trunc cuts the stream at every offset (all offsets for streams up to the point budget, otherwise first/last quarter of the budget plus random ones); io.read_err / io.sink_err inject an error at every source/sink call index of a fault-free dry run of the same history (same budget rule); io.read_benign / io.sink_benign apply short and Interrupted I/O to every call. A sub-case is non-trivial when the fault lies inside the stream's activity; distinct = distinct (fault point, outcome class, bytes delivered) per stream plus distinct event-log digests of the benign runs in which at least one benign fault fired on non-empty data.".into(),
                assumptions: vec!["the harness read loop retries Interrupted exactly like Read::read_to_end; the harness write loop like Write::write_all".into(), "a file cut exactly at an LZIP member boundary is a complete LZIP file and not a truncation".into()],
                real,
                stubs,
                exhaustive_part: Some("every truncation offset and every call index for streams within the per-run point budget (512 / 96 / 64 quick; 8192 / 1500 / 800 thorough)".into()),
            },
            "C01" | "C02" => PropMeta {
                level: "exploration",
                rule: "one run = (format/framing, option vector drawn from the documented ranges, input class and length biased to dictionary/chunk boundaries, write history with flushes and empty writes, read buffer sizes, optional benign short/Interrupted policy on sink and source) -> encode through SimSink, decode through SimSource, compare. *.bias runs encode twice, once with the match finder positions starting k bytes below 2^31-1 (k within the input), and require identical compressed bytes. *.big runs use 0.1-6 MB inputs. Non-trivial: non-empty input (bias: renormalisation point inside the input). distinct = distinct event-log digests (I/O call trace, stream hash, decoded hash).".into(),
                assumptions: vec!["in-range options only (out-of-range is C19)".into(), "position bias is semantically a prefix of data entirely outside the window".into()],
                real, stubs, exhaustive_part: None,
            },
            "C03" => PropMeta {
                level: "exploration",
                rule: "one run = one (direction, format, options, input, chunking). ours_to_ref: encode with the crate's writer under a random write history, decode with liblzma fed in chunks of 1 / random / whole; ref_to_ours: encode with liblzma (preset or custom options, filter chain, FullFlush points), decode with the crate's reader (random buffer sizes, benign source). Runs whose option combination liblzma itself refuses are skipped and counted (metrics.skipped_reference_refused). Non-trivial: every executed run.".into(),
                assumptions: vec!["liblzma 5.x static build is the reference; its own input restrictions define the supported feature set".into()],
                real: real.clone(), stubs: stubs.clone(), exhaustive_part: None,
            },
            "C11" => PropMeta {
                level: "exploration",
                rule: "one run = (filter kind, start offset or distance, input class, length) -> filter.inverse / filter.ref / bcj2.roundtrip as described in the level text. Non-trivial: the filter changed at least one byte (bcj2: at least one branch converted).".into(),
                assumptions: vec!["single write() per BCJWriter (split writes are C07's dimension, see KF-BCJWriter-split-writes)".into()],
                real: real.clone(), stubs: stubs.clone(), exhaustive_part: None,
            },
            "C04" => PropMeta {
                level: "fault_enumeration",
                rule: "corrupt.bitflip: one run = one small valid XZ (check CRC32/CRC64/SHA-256) or LZIP file (<= ~450 bytes, 1-3 blocks/members) and EVERY single-bit flip of it (each flip is one evaluation). corrupt.random: 1-3 random storage faults (bit flip, substitution, zero-fill, delete, insert, duplicate, swap, truncate; 8% torn write = prefix of this file + tail of another valid file) on files up to 40 KB (600 KB thorough). corrupt.field: one header/size/CRC/control field (16 XZ fields, 7 LZIP fields) set to 0 / 1 / max / +1 / -1 / random, with and without CRC fix-up. corrupt.nonformat: random strings, other formats' magics, own magic + garbage, valid magic+version + bad header. Oracle: Err, or Ok with exactly the original; LZIP trailing-garbage rule as the property states it; damage that turned the file into another valid file (the reference implementation reads the damaged bytes to exactly what our reader returned) cannot be detected by any reader and is exempt. distinct = distinct (flip position, outcome, bytes delivered) per file + distinct digests of the other runs.".into(),
                assumptions: vec!["bytes handed out before a block's check fails are not judged (a streaming decoder cannot hold them back); only what is reported as success is".into(), "liblzma decides whether a damaged file is in fact another valid file".into()],
                real: real.clone(), stubs: stubs.clone(),
                exhaustive_part: Some("all single-bit flips of every generated small file".into()),
            },
            "C06" => PropMeta {
                level: "exploration",
                rule: "hostile.random: random / low-entropy / zero strings, raw or behind the format's magic or a plausible header, into LZMA (.lzma header), LZMA2, XZ, LZIP, each BCJ, Delta and BCJ2 (four streams cut from the bytes) readers. hostile.mutated: valid streams with 1-4 storage faults, XZ header/footer CRCs recomputed in half of the runs so damage reaches LZMA2. hostile.fields: one size/count/property field at an extreme (index record count up to 2^62 with CRC fix-up, dictionary property 40, LZIP 512 MiB dictionary, member_size lies, .lzma dict 2^32-1 / size 2^64-1, LZMA2 chunk sizes). hostile.params: valid stream, hostile caller parameters (props 0-255, dict 0..2^32-1, size 0..2^64-1, lc/lp/pb out of range). hostile.grammar: container headers written from the formats' grammar with every token free (XZ block headers whose filter list ends at any token or byte, non-minimal VLIs, reserved flag bits, lying sizes, non-zero padding, index record counts up to 2^63-1, CRC right in 70%; LZIP header/trailer and .lzma header fields free). hostile.many: up to 60000 (200000 thorough) empty XZ streams / LZIP members / 1-byte LZMA2 chunks. After the first error three more reads are issued. Monitors: panic (caught), abort / stack overflow (worker death attributed to the seed), sticky Interrupted, output cap len*20000+16 MiB, peak heap <= declared dictionary + 64*len + 4*output + 16 MiB + 2*largest read buffer.".into(),
                assumptions: vec!["the declared dictionary size is taken from a tolerant scan of the bytes (largest plausible declaration)".into(), "allocation failure cannot be injected as a recoverable fault in Rust; requests above 8 GiB are refused and abort the worker, which is reported".into()],
                real: real.clone(), stubs: stubs.clone(), exhaustive_part: None,
            },
            "C15" => PropMeta {
                level: "exploration",
                rule: "monitors over workloads that reach the unsafe blocks of the `optimization` feature. oob.encode: formats x options with dictionaries 4096-65536, inputs of 0-24 bytes / around the dictionary size / 270-900 KB (the window moves) / long-distance repeats at distance dict-1, dict, dict+1, dict-273, 25% with the position wrap (SIMD renormalisation over the aligned tables). oob.decode: valid LZMA/LZMA2/XZ(check none) streams with 1-4 faults inside the compressed payload and chunk headers so that the range decoder runs off the end of its 64 KiB buffer inside direct-bit runs (probes direct_bits_asm / direct_bits_portable / direct_bits_past_buffer_end count it). oob.direct_bits: the direct-bit reader itself (seam verif::direct_bits_buffer) at every position in the last seven bytes of a buffer x every bit count 1..=26 x ranges with and without a pending normalisation; oob.chunkend: a valid LZMA2 stream rich in far matches whose chunk is cut to up to 96 (400 thorough) compressed sizes, so that the chunk buffer ends inside symbols and direct-bit runs; both with the chunk buffer directly in front of a guard page, the only monitor that sees a load made by the inline assembly. Monitors: guard pages (simulator's allocator: library allocations >= 4 KiB end at a PROT_NONE page; a stray access kills the worker and is attributed to the case); hook H5 shadow assertions (a violated precondition of an unsafe block panics with VERIF-OOB before the access and is the only monitor that sees the inline assembly's loads); thorough tier: the same binary built with AddressSanitizer (a report kills the worker and is attributed to the seed) and tiny encoder cases under Miri (the assembly cannot run there). Only out-of-bounds findings are reported by this check. Non-trivial: non-empty input / at least one fault applied.".into(),
                assumptions: vec!["the shadow assertions restate the preconditions correctly (they were written from the unsafe blocks' own SAFETY comments)".into(), "ASan does not see loads inside asm!; Miri cannot execute asm!".into()],
                real: real.clone(), stubs: stubs.clone(), exhaustive_part: None,
            },
            "C17" => PropMeta {
                level: "exploration",
                rule: format!("allocator seam: a measurement scope around construction plus a complete run. mem.encoder: LZMAOptions::get_memory_usage() vs the peak of LZMA2Writer (25% with chunk_size) / LZMAWriter over std::io::sink(); mem.decoder.*: lzma_get_memory_usage / _by_props and lzma2_get_memory_usage vs the peak of LZMAReader / LZMA2Reader told that dictionary size; grid dict in {{4 KiB .. 8 MiB (quick), .. 32 MiB (thorough)}} plus random sizes x lc/lp/pb x mode x match finder. Oracle: peak <= estimate and estimate <= {} * peak + {} KiB (constants measured once on the repaired tree). mem.estimator: the estimators alone (no allocation) over dictionary sizes up to the encoder's maximum of 768 MiB and the decoder's of 4 GiB - 1: no panic (overflow checks are on), non-decreasing in the dictionary size, never below window + position table. mem.limit: .lzma headers (dict up to 2^32-1, props incl. invalid) x limits need-10^6, -1, 0, +1, +1000 KiB: need > limit must give OutOfMemory with no request above 64 KiB before the error. Peak = requested bytes, not resident pages. Non-trivial: every run; distinct = distinct (parameters, estimate, peak) digests.", memory::F, memory::S >> 10),
                assumptions: vec!["requested bytes are measured, not resident memory".into()],
                real: real.clone(), stubs: stubs.clone(), exhaustive_part: None,
            },
            "C19" => PropMeta {
                level: "exploration",
                rule: "boundary grid over the public option structs: start from sane defaults, push 1-3 fields to a boundary (lc 0..100, lp 0..100, pb 0..100, lc/lp combinations around 4, dict 0/1/4095/4096/4097/65535/.../2^32-1 (the largest only in the thorough tier), nice_len 0,1,2,3,4,7,8,273,274,1000, depth i32::MIN..MAX, delta distance 0,1,256,257,1000, BCJ offsets unaligned and 2^32-1, 2-5 extra filters, empty/short/long preset dictionary, unit size 1/4096/2^64-1) x {.lzma 3 framings, LZMA2, XZ, LZIP} x inputs 0..70000 bytes (700000 thorough) x single write or write/flush/write. Oracle: some operation returns Err, or the stream decodes with the crate's own reader to the written bytes; never a panic. This is a configuration grid run through the harness; the simulator contributes little here.".into(),
                assumptions: vec!["an error from any of new/write/flush/finish counts as rejection (LZMA2Writer::new and LZIPWriter::new cannot fail and report at the first operation)".into()],
                real: real.clone(), stubs: stubs.clone(), exhaustive_part: None,
            },
            "C07" => PropMeta {
                level: "exploration",
                rule: "one run = one (format, options, input); history.write encodes it under 5 (quick) / 12 (thorough) write histories: single write, one byte per write, huge-then-single-bytes, random partitions with flushes and empty writes; history.read decodes one stream under as many buffer-size sequences incl. zero-length buffers at random points. Each history is one evaluation; distinct = histories executed (each history of a run differs by construction).".into(),
                assumptions: vec!["the stand-alone BCJWriter cannot be correct across split writes without an API change (known finding KF-BCJWriter-split-writes)".into()],
                real, stubs, exhaustive_part: None,
            },
            "C12" => PropMeta {
                level: "exploration",
                rule: "one run = 1-5 XZ streams (1-8 LZIP members), each with its own options/check/filters and a random slice (20% empty) of a text buffer, joined with stream padding drawn from {0,0,4,8,12,16}; in 25% of XZ runs one gap gets padding from {1,2,3,5,6,7} (must be rejected). multi-stream on in 80% of runs (off: first stream only). Benign short/Interrupted reads in half of the runs. Non-trivial: more than one part.".into(),
                assumptions: vec!["each part is first checked to round-trip on its own; otherwise the run is skipped (C02 reports it)".into()],
                real, stubs, exhaustive_part: None,
            },
            "C13" => PropMeta {
                level: "exploration",
                rule: "determ.repeat: same case encoded 3 times with the allocator filling fresh non-zeroed memory with 0xAA / 0x55 / 0xFF; determ.partition: 4 write partitions without flush (chunk/block size unset for LZMA2/XZ). Output bytes must be identical. The multi-threaded part (schedules, worker counts; output equals the concatenation of single-threaded unit encodings) runs in lzsim-mt scenario mt.determ and is merged into this evidence file. Non-trivial: non-empty input.".into(),
                assumptions: vec!["alloc_zeroed memory is not junk-filled (the allocator contract zeroes it)".into()],
                real, stubs, exhaustive_part: None,
            },
            "C16" => PropMeta {
                level: "exploration",
                rule: "one run = valid .lzma (header+marker, header+declared size, raw+marker, raw+size given to the reader), LZMA2 or single-stream XZ, followed by nothing / zeros / a second valid stream / random bytes; read with random buffer sizes and (40%) short/Interrupted reads until Ok(0); the bytes SimSource handed out must equal the stream length; for a following stream a second reader on into_inner() must decode it. Non-trivial: trailer not empty.".into(),
                assumptions: vec!["a raw stream with marker whose size is ALSO given to the reader is outside the property's wording and not generated".into()],
                real, stubs, exhaustive_part: None,
            },
            "C18" => PropMeta {
                level: "exploration",
                rule: "one run = XZ or LZIP with a block/member size from {1, dict, dict+1, dict+777, 3*dict, len/3} and a write history (one huge write, thousands of tiny writes, random), sink parsed with the harness's own XZ/LZIP parsers: every record <= max(size, dict), records sum to the input; or .lzma with an expected size off by {0,-1,+1,-len,+1000}. MT unit sizes and chunk/member counts are checked in C08 (lzsim-mt). Non-trivial: input longer than the limit.".into(),
                assumptions: vec!["a file the parser cannot walk is skipped here (C02/C03 report malformed containers)".into()],
                real, stubs, exhaustive_part: None,
            },
            _ => PropMeta { level: "exploration", rule: String::new(), assumptions: vec![], real, stubs, exhaustive_part: None },
        }
    }
}

fn main() {
    let args: Vec<String> = std::env::args().collect();
    if args.get(1).map(|s| s.as_str()) == Some("guardtest2") {
        use std::io::Write;
        let n: usize = args[2].parse().unwrap();
        let period: usize = args[3].parse().unwrap();
        let mode = if args[4] == "fast" { lz::EncodeMode::Fast } else { lz::EncodeMode::Normal };
        let mf = if args[5] == "hc4" { lz::MFType::HC4 } else { lz::MFType::BT4 };
        let data: Vec<u8> = (0..n).map(|i| ((i % period) as u32).wrapping_mul(2654435761) as u8).collect();
        let mut out = Vec::with_capacity(n);
        simcore::alloc::set_guard(true);
        let o = lz::LZMAOptions::new(4096, 3, 0, 2, mode, 32, mf, 0);
        let mut w = lz::LZMA2Writer::new(&mut out, lz::LZMA2Options { lzma_options: o, chunk_size: None });
        w.write_all(&data).unwrap();
        w.finish().unwrap();
        simcore::alloc::set_guard(false);
        println!("survived: {} -> {} bytes", n, out.len());
        return;
    }
    if args.get(1).map(|s| s.as_str()) == Some("guardtest") {
        // self-test of the guard-page allocator mode: must die with SIGSEGV
        simcore::alloc::set_guard(true);
        let v = vec![0u8; 334097];
        let w = vec![7u8; 5000];
        println!("guarded allocations: {}", simcore::alloc::guarded_allocations());
        let x = unsafe { std::ptr::read_volatile(w.as_ptr().add(4999)) };
        println!("last byte readable: {x}");
        let y = unsafe { std::ptr::read_volatile(v.as_ptr().add(v.len())) };
        println!("NOT REACHED: read one past the end: {y}");
        return;
    }
    if args.get(1).map(|s| s.as_str()) == Some("dump") && args.len() >= 4 {
        // debugging aid: encode the case of a replay file and write the compressed bytes out
        simcore::run::install_panic_hook();
        let rf: simcore::case::ReplayFile = serde_json::from_str(&std::fs::read_to_string(&args[2]).unwrap()).unwrap();
        let data = rf.case.input.gen();
        match rt::encode_sim(&rf.case, &data) {
            Ok(e) => {
                std::fs::write(&args[3], &e.bytes).unwrap();
                println!("{} bytes in, {} bytes out", data.len(), e.bytes.len());
            }
            Err(v) => println!("encode failed: {v:?}"),
        }
        return;
    }
    simcore::orch::main(&St)
}
