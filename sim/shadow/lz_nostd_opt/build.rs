fn main() {
    println!("cargo:rustc-check-cfg=cfg(lzma_rust2_verif)");
    println!("cargo:rustc-check-cfg=cfg(lzma_rust2_verif_shuttle)");
    println!("cargo:rustc-cfg=lzma_rust2_verif");
    println!("cargo:rerun-if-changed=build.rs");
}
