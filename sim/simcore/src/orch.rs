//! Orchestrator / worker processes, evidence, known findings, replay.

use crate::case::{Case, ReplayFile, Violation};
use crate::rng::{fnv1a, run_seed};
use crate::run::RunResult;
use serde::{Deserialize, Serialize};
use serde_json::{json, Value};
use std::collections::{BTreeMap, BTreeSet, HashSet};
use std::io::{BufRead, BufReader, Write};
use std::process::{Command, Stdio};
use std::sync::mpsc;
use std::time::{Duration, Instant};

pub const DEFAULT_SEED: u64 = 20260923;

pub struct PropMeta {
    pub level: &'static str,
    pub rule: String,
    pub assumptions: Vec<String>,
    pub real: Vec<&'static str>,
    pub stubs: Vec<&'static str>,
    /// true when part of the plan is a complete enumeration of a finite fault space
    pub exhaustive_part: Option<String>,
}

pub trait Engine: Sync {
    fn name(&self) -> &'static str;
    fn properties(&self) -> Vec<&'static str>;
    /// (scenario, number of runs) in order; run index i of the check maps into this list.
    fn plan(&self, prop: &str, tier: &str) -> Vec<(String, u64)>;
    /// Case number `k` of scenario `scen`. Must be a pure function of its arguments.
    fn gen(&self, prop: &str, scen: &str, k: u64, seed: u64) -> Case;
    fn exec(&self, case: &Case, keep_log: bool) -> RunResult;
    fn meta(&self, prop: &str) -> PropMeta;
    /// Optional scenario-aware minimiser hints: fields that must not be touched.
    fn minimise(&self, case: &Case, sig: &str) -> Case {
        crate::minimise::minimise(case, sig, &|c| crate::run::guarded(|| self.exec(c, false)).unwrap_or_default())
    }
}

/// Runs the engine; a panic that escapes the scenario's own guards is a defect of the harness
/// and is reported as such (exit 2), never as a violation of the property.
pub fn safe_exec(engine: &dyn Engine, case: &Case, keep_log: bool) -> RunResult {
    match crate::run::guarded(|| engine.exec(case, keep_log)) {
        Ok(r) => r,
        Err((loc, msg)) => RunResult { violation: Some(Violation::new("harness-error", "harness", crate::run::normalise_site(&loc), msg)), evals: 1, ..Default::default() },
    }
}

fn verif_root() -> String {
    std::env::var("VERIF_ROOT").unwrap_or_else(|_| "/verif".into())
}

fn master_seed() -> u64 {
    std::env::var("VERIF_SEED").ok().and_then(|s| s.trim().parse::<u64>().ok()).unwrap_or(DEFAULT_SEED)
}

fn jobs() -> usize {
    std::env::var("VERIF_JOBS").ok().and_then(|s| s.parse().ok()).unwrap_or_else(|| std::thread::available_parallelism().map(|n| n.get()).unwrap_or(8)).max(1)
}

fn hang_secs() -> u64 {
    std::env::var("VERIF_HANG_SECS").ok().and_then(|s| s.parse().ok()).unwrap_or(180)
}

/// Maps a global run index to (scenario, index inside the scenario).
fn locate(plan: &[(String, u64)], idx: u64) -> Option<(&str, u64)> {
    let mut base = 0;
    for (s, n) in plan {
        if idx < base + n {
            return Some((s.as_str(), idx - base));
        }
        base += n;
    }
    None
}

fn gen_at(engine: &dyn Engine, prop: &str, plan: &[(String, u64)], idx: u64, master: u64) -> Case {
    let (scen, k) = locate(plan, idx).expect("index outside plan");
    let seed = run_seed(master, prop, scen, k);
    engine.gen(prop, scen, k, seed)
}

#[derive(Serialize, Deserialize, Default, Debug)]
struct Batch {
    evals: u64,
    distinct_sub: u64,
    runs: u64,
    nontrivial: u64,
    steps: u64,
    digests: Vec<(u64, u64, bool)>, // (idx, digest, nontrivial)
    fired: BTreeMap<String, u64>,
    probes: BTreeMap<String, u64>,
    metrics: BTreeMap<String, u64>,
    scen: BTreeMap<String, u64>,
    sched: Vec<u64>,
    sample: Option<Value>,
}

#[derive(Serialize, Deserialize, Debug, Clone)]
struct Found {
    idx: u64,
    case: Case,
    violation: Violation,
    minimised: bool,
}

// -------------------------------------------------------------------------------------------
// worker
// -------------------------------------------------------------------------------------------

/// The engine's plan, optionally scaled by VERIF_PLAN_SCALE (used for the slow sanitizer build).
fn scaled_plan(engine: &dyn Engine, prop: &str, tier: &str) -> Vec<(String, u64)> {
    let scale: f64 = std::env::var("VERIF_PLAN_SCALE").ok().and_then(|s| s.parse().ok()).unwrap_or(1.0);
    // VERIF_SCEN_FILTER = name[=runs][,name[=runs]...] keeps only the scenarios whose name
    // contains one of the given texts, optionally with another number of runs
    let filter: Option<Vec<(String, Option<u64>)>> = std::env::var("VERIF_SCEN_FILTER").ok().map(|f| {
        f.split(',')
            .filter(|p| !p.is_empty())
            .map(|p| match p.split_once('=') {
                Some((n, c)) => (n.to_string(), c.parse().ok()),
                None => (p.to_string(), None),
            })
            .collect()
    });
    engine
        .plan(prop, tier)
        .into_iter()
        .filter_map(|(s, n)| match &filter {
            None => Some((s, n)),
            Some(fs) => fs.iter().find(|(name, _)| s.contains(name.as_str())).map(|(_, c)| (s.clone(), c.unwrap_or(n))),
        })
        .map(|(s, n)| (s, if scale == 1.0 { n } else { ((n as f64 * scale) as u64).max(1) }))
        .collect()
}

fn worker(engine: &dyn Engine, prop: &str, tier: &str, master: u64, start: u64, stride: u64) {
    let plan = scaled_plan(engine, prop, tier);
    let total: u64 = plan.iter().map(|p| p.1).sum();
    let out = std::io::stdout();
    let known = load_known();
    let mut batch = Batch::default();
    let mut last_flush = Instant::now();
    let mut sample_sent = 0;
    let mut idx = start;
    let min_budget = Duration::from_secs(45);
    while idx < total {
        {
            let mut o = out.lock();
            let _ = writeln!(o, "B {idx}");
            let _ = o.flush();
        }
        let case = gen_at(engine, prop, &plan, idx, master);
        let want_sample = sample_sent < 2;
        let mut case = case;
        let res = safe_exec(engine, &case, want_sample);
        batch.runs += 1;
        batch.evals += res.evals;
        batch.distinct_sub += res.distinct_sub;
        batch.steps += res.steps;
        if res.nontrivial {
            batch.nontrivial += 1;
        }
        batch.digests.push((idx, res.digest, res.nontrivial && res.evals <= 1));
        for (k, v) in &res.fired {
            *batch.fired.entry(k.clone()).or_insert(0) += v;
        }
        for (k, v) in &res.probes {
            *batch.probes.entry(k.clone()).or_insert(0) += v;
        }
        for (k, v) in &res.metrics {
            *batch.metrics.entry(k.clone()).or_insert(0) += v;
        }
        *batch.scen.entry(case.scen.clone()).or_insert(0) += 1;
        if let Some(h) = res.sched_hash {
            batch.sched.push(h);
        }
        if want_sample && res.nontrivial && res.violation.is_none() {
            sample_sent += 1;
            batch.sample = Some(json!({"run_index": idx, "case": case, "event_log_head": res.log.iter().take(12).collect::<Vec<_>>()}));
        }
        if let Some(v) = res.violation.clone() {
            for (k, val) in &res.pin {
                case.knobs.insert(k.clone(), *val);
            }
            let sig = v.signature();
            // Report the violation as found first: a neighbouring case tried by the minimiser may
            // kill this process (abort, stack overflow), which must not cost the finding.
            {
                let f = Found { idx, case: case.clone(), violation: v.clone(), minimised: false };
                let mut o = out.lock();
                let _ = writeln!(o, "V {}", serde_json::to_string(&f).unwrap());
                let _ = writeln!(o, "M {idx}");
                let _ = o.flush();
            }
            let _ = min_budget;
            // a listed known finding is only counted, there is nothing to minimise
            let is_known = match_known(&known, prop, &case, &v).is_some();
            if std::env::var_os("VERIF_NO_MINIMISE").is_none() && v.class != "hang" && v.class != "harness-error" && !is_known {
                let m = engine.minimise(&case, &sig);
                let f = Found { idx, case: m, violation: v, minimised: true };
                let mut o = out.lock();
                let _ = writeln!(o, "V {}", serde_json::to_string(&f).unwrap());
                let _ = o.flush();
            }
            {
                let mut o = out.lock();
                let _ = writeln!(o, "N {idx}");
                let _ = o.flush();
            }
        }
        if batch.runs >= 512 || last_flush.elapsed() > Duration::from_secs(2) {
            let mut o = out.lock();
            let _ = writeln!(o, "S {}", serde_json::to_string(&batch).unwrap());
            let _ = o.flush();
            batch = Batch::default();
            last_flush = Instant::now();
        }
        idx += stride;
    }
    let mut o = out.lock();
    let _ = writeln!(o, "S {}", serde_json::to_string(&batch).unwrap());
    let _ = writeln!(o, "D");
    let _ = o.flush();
}

// -------------------------------------------------------------------------------------------
// known findings
// -------------------------------------------------------------------------------------------

#[derive(Deserialize, Debug, Clone)]
pub struct KnownFinding {
    pub id: String,
    pub property: String,
    pub class: String,
    #[serde(default)]
    pub component: String,
    /// substring of the violation site
    #[serde(default)]
    pub site: String,
    /// predicates over the case: path -> {"eq":v} | {"in":[..]} | {"min":n,"max":n}
    #[serde(default, rename = "where")]
    pub where_: BTreeMap<String, Value>,
    pub what: String,
}

#[derive(Deserialize, Debug, Default)]
struct KnownFile {
    #[serde(default)]
    findings: Vec<KnownFinding>,
}

fn load_known() -> Vec<KnownFinding> {
    let p = format!("{}/known_findings.json", verif_root());
    match std::fs::read_to_string(&p) {
        Ok(s) => match serde_json::from_str::<KnownFile>(&s) {
            Ok(k) => k.findings,
            Err(e) => {
                eprintln!("harness error: cannot parse {p}: {e}");
                std::process::exit(2);
            }
        },
        Err(_) => vec![],
    }
}

fn lookup<'a>(v: &'a Value, path: &str) -> Option<&'a Value> {
    let mut cur = v;
    for part in path.split('.') {
        cur = match cur {
            Value::Object(m) => m.get(part)?,
            Value::Array(a) => a.get(part.parse::<usize>().ok()?)?,
            _ => return None,
        };
    }
    Some(cur)
}

fn pred_holds(actual: Option<&Value>, pred: &Value) -> bool {
    let Some(obj) = pred.as_object() else { return actual == Some(pred) };
    for (k, want) in obj {
        let ok = match k.as_str() {
            "eq" => actual == Some(want),
            "ne" => actual != Some(want),
            "in" => want.as_array().map(|a| actual.map(|x| a.contains(x)).unwrap_or(false)).unwrap_or(false),
            "min" => actual.and_then(|x| x.as_f64()).zip(want.as_f64()).map(|(a, b)| a >= b).unwrap_or(false),
            "max" => actual.and_then(|x| x.as_f64()).zip(want.as_f64()).map(|(a, b)| a <= b).unwrap_or(false),
            "absent" => actual.is_none() || actual == Some(&Value::Null),
            "present" => !(actual.is_none() || actual == Some(&Value::Null)),
            "contains" => actual.and_then(|x| x.as_str()).zip(want.as_str()).map(|(a, b)| a.contains(b)).unwrap_or(false),
            _ => false,
        };
        if !ok {
            return false;
        }
    }
    true
}

pub fn match_known<'a>(known: &'a [KnownFinding], prop: &str, case: &Case, v: &Violation) -> Option<&'a KnownFinding> {
    let cv = serde_json::to_value(case).ok()?;
    known.iter().find(|k| {
        k.property == prop
            && k.class == v.class
            && (k.component.is_empty() || k.component == "*" || k.component == v.component)
            && (k.site.is_empty() || v.site.contains(&k.site))
            && k.where_.iter().all(|(path, pred)| pred_holds(lookup(&cv, path), pred))
    })
}

// -------------------------------------------------------------------------------------------
// orchestrator
// -------------------------------------------------------------------------------------------

enum Msg {
    Line(usize, String),
    Exit(usize, #[allow(dead_code)] Option<i32>, bool),
}

struct WorkerState {
    child: std::process::Child,
    minimising: bool,
    current: Option<u64>,
    began: Instant,
    next_start: u64,
    done: bool,
    gen: u64,
    /// runs announced ("B") by the current worker process / runs it has reported in batches ("S")
    announced: u64,
    reported: u64,
}

fn spawn_worker(exe: &std::path::Path, prop: &str, tier: &str, master: u64, start: u64, stride: u64, slot: usize, gen: u64, tx: &mpsc::Sender<(u64, Msg)>) -> std::process::Child {
    let mut child = Command::new(exe)
        .args(["worker", prop, tier, &master.to_string(), &start.to_string(), &stride.to_string()])
        .stdin(Stdio::null())
        .stdout(Stdio::piped())
        .stderr(Stdio::null())
        .spawn()
        .unwrap_or_else(|e| {
            eprintln!("harness error: cannot spawn worker: {e}");
            std::process::exit(2)
        });
    let stdout = child.stdout.take().unwrap();
    let tx = tx.clone();
    std::thread::spawn(move || {
        let rd = BufReader::with_capacity(1 << 20, stdout);
        let mut saw_done = false;
        for line in rd.lines() {
            match line {
                Ok(l) => {
                    if l == "D" {
                        saw_done = true;
                    }
                    if tx.send((gen, Msg::Line(slot, l))).is_err() {
                        return;
                    }
                }
                Err(_) => break,
            }
        }
        let _ = tx.send((gen, Msg::Exit(slot, None, saw_done)));
    });
    child
}

pub struct CheckOutcome {
    pub violations: usize,
    pub known_hits: usize,
}

pub fn check(engine: &dyn Engine, prop: &str, tier: &str) -> i32 {
    let t0 = Instant::now();
    let master = master_seed();
    let plan = scaled_plan(engine, prop, tier);
    let total: u64 = plan.iter().map(|p| p.1).sum();
    if total == 0 {
        eprintln!("harness error: empty plan for {prop} {tier}");
        return 2;
    }
    let exe = std::env::current_exe().expect("current_exe");
    let n = jobs().min(total as usize).max(1);
    let stride = n as u64;
    println!("# {} check {prop} tier={tier} seed={master} runs={total} workers={n}", engine.name());
    let (tx, rx) = mpsc::channel::<(u64, Msg)>();
    let mut workers: Vec<WorkerState> = Vec::new();
    for w in 0..n {
        let child = spawn_worker(&exe, prop, tier, master, w as u64, stride, w, 0, &tx);
        workers.push(WorkerState { child, minimising: false, current: None, began: Instant::now(), next_start: w as u64, done: false, gen: 0, announced: 0, reported: 0 });
    }
    let mut agg = Batch::default();
    let mut digests: HashSet<u64> = HashSet::new();
    let mut all_digests: Vec<(u64, u64)> = Vec::new();
    let keep_all = std::env::var_os("VERIF_DIGEST_OUT").is_some();
    let mut sched: HashSet<u64> = HashSet::new();
    let mut samples: Vec<Value> = Vec::new();
    let mut found: Vec<Found> = Vec::new();
    let hang = Duration::from_secs(hang_secs());
    let mut live = n;
    let mut restarts = 0u64;
    let mut lost_runs = 0u64;
    while live > 0 {
        match rx.recv_timeout(Duration::from_millis(500)) {
            Ok((gen, Msg::Line(slot, line))) => {
                let w = &mut workers[slot];
                if gen != w.gen {
                    continue;
                }
                if let Some(rest) = line.strip_prefix("B ") {
                    w.current = rest.parse().ok();
                    w.began = Instant::now();
                    if !w.minimising {
                        w.announced += 1;
                    }
                } else if let Some(rest) = line.strip_prefix("S ") {
                    if let Ok(b) = serde_json::from_str::<Batch>(rest) {
                        w.reported += b.runs;
                        agg.runs += b.runs;
                        agg.evals += b.evals;
                        agg.distinct_sub += b.distinct_sub;
                        agg.nontrivial += b.nontrivial;
                        agg.steps += b.steps;
                        for (i, d, nt) in b.digests {
                            if nt {
                                digests.insert(d);
                            }
                            if keep_all {
                                all_digests.push((i, d));
                            }
                        }
                        for (k, v) in b.fired {
                            *agg.fired.entry(k).or_insert(0) += v;
                        }
                        for (k, v) in b.probes {
                            *agg.probes.entry(k).or_insert(0) += v;
                        }
                        for (k, v) in b.metrics {
                            *agg.metrics.entry(k).or_insert(0) += v;
                        }
                        for (k, v) in b.scen {
                            *agg.scen.entry(k).or_insert(0) += v;
                        }
                        for h in b.sched {
                            sched.insert(h);
                        }
                        if let Some(s) = b.sample {
                            if samples.len() < 3 {
                                samples.push(s);
                            }
                        }
                    }
                } else if let Some(rest) = line.strip_prefix("V ") {
                    if let Ok(f) = serde_json::from_str::<Found>(rest) {
                        // the minimised version of a finding replaces the one reported first
                        if f.minimised {
                            if let Some(old) = found.iter_mut().rev().find(|o| o.idx == f.idx && !o.minimised && o.violation.signature() == f.violation.signature()) {
                                *old = f;
                            } else {
                                found.push(f);
                            }
                        } else {
                            found.push(f);
                        }
                    }
                } else if line.starts_with("M ") {
                    w.minimising = true;
                    w.began = Instant::now();
                } else if line.starts_with("N ") {
                    w.minimising = false;
                } else if line == "D" {
                    w.done = true;
                    w.current = None;
                }
            }
            Ok((gen, Msg::Exit(slot, _, saw_done))) => {
                let w = &mut workers[slot];
                if gen != w.gen {
                    continue;
                }
                let status = w.child.wait().ok();
                if saw_done || w.done {
                    live -= 1;
                    continue;
                }
                // the worker died in the middle of run `current`
                let idx = w.current.unwrap_or(w.next_start);
                let sigdesc = match status {
                    Some(s) => {
                        #[cfg(unix)]
                        {
                            use std::os::unix::process::ExitStatusExt;
                            match s.signal() {
                                Some(sig) => format!("signal {sig}"),
                                None => format!("exit code {:?}", s.code()),
                            }
                        }
                        #[cfg(not(unix))]
                        {
                            format!("{s:?}")
                        }
                    }
                    None => "unknown".into(),
                };
                if w.minimising {
                    // died while the minimiser tried a neighbouring case: the finding itself is
                    // already recorded (unminimised)
                    w.minimising = false;
                } else {
                    let case = gen_at(engine, prop, &plan, idx, master);
                    found.push(Found { idx, case, violation: Violation::new("abort", "process", sigdesc.clone(), format!("worker process died ({sigdesc}) during this run")), minimised: false });
                }
                // the runs of the batch that was never reported did complete (without a finding:
                // findings are sent at once), as did the one that killed the process
                lost_runs += w.announced.saturating_sub(w.reported);
                w.announced = 0;
                w.reported = 0;
                restarts += 1;
                let next = idx + stride;
                if next < total && restarts < 5000 {
                    w.gen += 1;
                    w.child = spawn_worker(&exe, prop, tier, master, next, stride, slot, w.gen, &tx);
                    w.current = None;
                    w.began = Instant::now();
                    w.next_start = next;
                } else {
                    live -= 1;
                }
            }
            Err(mpsc::RecvTimeoutError::Timeout) => {}
            Err(mpsc::RecvTimeoutError::Disconnected) => break,
        }
        // watchdog
        for slot in 0..workers.len() {
            let w = &mut workers[slot];
            if w.done {
                continue;
            }
            if let Some(idx) = w.current {
                if w.began.elapsed() > hang {
                    let _ = w.child.kill();
                    let _ = w.child.wait();
                    if w.minimising {
                        w.minimising = false;
                    } else {
                        let case = gen_at(engine, prop, &plan, idx, master);
                        found.push(Found { idx, case, violation: Violation::new("hang", "process", "watchdog", format!("run made no progress for {}s", hang.as_secs())), minimised: false });
                    }
                    lost_runs += w.announced.saturating_sub(w.reported);
                    w.announced = 0;
                    w.reported = 0;
                    restarts += 1;
                    let next = idx + stride;
                    w.gen += 1;
                    if next < total && restarts < 5000 {
                        w.child = spawn_worker(&exe, prop, tier, master, next, stride, slot, w.gen, &tx);
                        w.current = None;
                        w.began = Instant::now();
                        w.next_start = next;
                    } else {
                        w.done = true;
                        live -= 1;
                    }
                }
            }
        }
    }

    if keep_all {
        if let Some(p) = std::env::var_os("VERIF_DIGEST_OUT") {
            all_digests.sort();
            let mut s = String::new();
            for (i, d) in &all_digests {
                s.push_str(&format!("{i} {d:016x}\n"));
            }
            let _ = std::fs::write(p, s);
        }
    }

    // ---- triage -------------------------------------------------------------------------
    let known = load_known();
    let mut known_hit: BTreeMap<String, (String, u64)> = BTreeMap::new();
    let mut fresh: BTreeMap<String, Found> = BTreeMap::new();
    let mut harness_errors = 0usize;
    for f in found {
        if f.violation.class == "harness-error" {
            harness_errors += 1;
            if harness_errors <= 3 {
                println!("# HARNESS-ERROR: run {} panicked inside the harness at {}: {}", f.idx, f.violation.site, f.violation.detail);
            }
            continue;
        }
        if let Some(k) = match_known(&known, prop, &f.case, &f.violation) {
            let e = known_hit.entry(k.id.clone()).or_insert((k.what.clone(), 0));
            e.1 += 1;
            continue;
        }
        let sig = f.violation.signature();
        let size = serde_json::to_string(&f.case).map(|s| s.len()).unwrap_or(usize::MAX);
        match fresh.get(&sig) {
            Some(old) if serde_json::to_string(&old.case).map(|s| s.len()).unwrap_or(0) <= size => {}
            _ => {
                fresh.insert(sig, f);
            }
        }
    }
    for (id, (what, n)) in &known_hit {
        println!("KNOWN-FINDING: property={prop} {id}: {what} (hit {n}x)");
    }
    let root = verif_root();
    let _ = std::fs::create_dir_all(format!("{root}/replays"));
    // replay files of earlier runs of this check are stale now
    if std::env::var_os("VERIF_KEEP_REPLAYS").is_some() {
        // a second engine of the same check: keep what the first one wrote
    } else if let Ok(rd) = std::fs::read_dir(format!("{root}/replays")) {
        for e in rd.flatten() {
            let name = e.file_name().to_string_lossy().to_string();
            if name.starts_with(&format!("{prop}-")) && name.ends_with(".json") {
                let _ = std::fs::remove_file(e.path());
            }
        }
    }
    let mut confirmed = 0usize;
    let mut unconfirmed = 0usize;
    let mut slow_runs = 0usize;
    for (sig, f) in fresh.iter().take(12) {
        let path = format!("{root}/replays/{prop}-{:08x}-{}.json", fnv1a(sig) as u32, f.case.seed);
        let rf = ReplayFile { case: f.case.clone(), violation: f.violation.clone(), minimised: f.minimised, original_seed: f.case.seed, build: std::env::var("VERIF_BUILD_TAG").unwrap_or_default() };
        let _ = std::fs::write(&path, serde_json::to_string_pretty(&rf).unwrap());
        // confirm in a fresh process
        let st = Command::new(&exe).args(["replay", &path]).stdout(Stdio::piped()).stderr(Stdio::null()).output();
        let reproduced = matches!(&st, Ok(o) if o.status.code() == Some(1));
        if reproduced {
            confirmed += 1;
            println!("VIOLATION property={prop} replay={path}");
            println!("#   {} :: {}", sig, f.violation.detail);
        } else if f.violation.class == "hang" && f.violation.component == "process" {
            // the watchdog stopped the run in the batch, but alone in a fresh process it finishes
            // within the same limit: the machine was overloaded, the run is merely slow. (A real
            // hang is deterministic here and reproduces.)
            slow_runs += 1;
            let _ = std::fs::remove_file(&path);
            println!("# note: run {} exceeded the {}s watchdog in the batch and completed in a fresh process (machine load); not a finding", f.idx, hang_secs());
        } else {
            unconfirmed += 1;
            println!("# HARNESS-ERROR: violation {sig} (run {}) did not reproduce from {path}", f.idx);
        }
    }

    // ---- evidence -----------------------------------------------------------------------
    let wall = t0.elapsed().as_secs_f64();
    let meta = engine.meta(prop);
    if slow_runs > 0 {
        agg.metrics.insert("runs_stopped_by_watchdog_that_completed_alone".into(), slow_runs as u64);
    }
    if lost_runs > 0 {
        agg.metrics.insert("runs_without_batch_statistics".into(), lost_runs);
    }
    let evid = json!({
        "property_id": prop,
        "tier": if tier == "thorough" { "thorough" } else { "quick" },
        "seed": master,
        "level": meta.level,
        "coverage": {
            "evaluations": agg.evals,
            "distinct_nontrivial": digests.len() as u64 + agg.distinct_sub,
            "simulated_runs": agg.runs,
            "rule": meta.rule,
            "samples": samples,
            "nontrivial_runs": agg.nontrivial,
            "runs_per_hour": if wall > 0.0 { (agg.runs as f64 / wall * 3600.0) as u64 } else { 0 },
            "simulated_steps": agg.steps,
            "simulated_time_note": "the library has no clock; simulated time is the number of I/O calls plus scheduler decisions",
            "faults_fired": agg.fired,
            "probes_hit": agg.probes,
            "metrics": agg.metrics,
            "runs_per_scenario": agg.scen,
            "distinct_schedules": sched.len(),
            "components_real": meta.real,
            "components_stub": meta.stubs,
            "exhaustive_part": meta.exhaustive_part,
            "known_findings_hit": known_hit.iter().map(|(k, v)| json!({"id": k, "hits": v.1})).collect::<Vec<_>>(),
            "worker_processes": n,
            "worker_restarts": restarts,
            "engine": engine.name(),
        },
        "assumptions": meta.assumptions,
        "wall_s": wall,
        "violations": confirmed,
    });
    let _ = std::fs::create_dir_all(format!("{root}/evidence"));
    let epath = format!("{root}/evidence/{prop}.json");
    if let Err(e) = std::fs::write(&epath, serde_json::to_string_pretty(&evid).unwrap()) {
        eprintln!("harness error: cannot write {epath}: {e}");
        return 2;
    }
    println!(
        "# {prop} {tier}: runs={} evaluations={} nontrivial_runs={} distinct={} steps={} violations={} known={} wall={:.1}s",
        agg.runs,
        agg.evals,
        agg.nontrivial,
        digests.len() as u64 + agg.distinct_sub,
        agg.steps,
        confirmed,
        known_hit.len(),
        wall
    );
    if lost_runs > 0 {
        println!("# note: {lost_runs} runs executed by worker processes that died or were stopped before their batch statistics arrived (counted as runs, not in the other figures)");
    }
    if agg.runs + lost_runs < total {
        println!("# HARNESS-ERROR: only {} of {} runs completed", agg.runs + lost_runs, total);
        if confirmed == 0 {
            return 2;
        }
    }
    if confirmed > 0 {
        1
    } else if unconfirmed > 0 || harness_errors > 0 {
        2
    } else {
        0
    }
}

// -------------------------------------------------------------------------------------------
// replay
// -------------------------------------------------------------------------------------------

fn exec_case_child(engine: &dyn Engine, path: &str) -> i32 {
    let s = match std::fs::read_to_string(path) {
        Ok(s) => s,
        Err(e) => {
            eprintln!("cannot read {path}: {e}");
            return 2;
        }
    };
    let rf: ReplayFile = match serde_json::from_str(&s) {
        Ok(r) => r,
        Err(e) => {
            eprintln!("cannot parse {path}: {e}");
            return 2;
        }
    };
    let res = safe_exec(engine, &rf.case, true);
    println!("R {}", serde_json::to_string(&res).unwrap());
    0
}

pub fn replay(_engine: &dyn Engine, path: &str) -> i32 {
    let s = match std::fs::read_to_string(path) {
        Ok(s) => s,
        Err(e) => {
            eprintln!("cannot read {path}: {e}");
            return 2;
        }
    };
    let rf: ReplayFile = match serde_json::from_str(&s) {
        Ok(r) => r,
        Err(e) => {
            eprintln!("cannot parse {path}: {e}");
            return 2;
        }
    };
    let exe = std::env::current_exe().expect("current_exe");
    let mut child = match Command::new(&exe).args(["exec-case", path]).stdout(Stdio::piped()).stderr(Stdio::null()).spawn() {
        Ok(c) => c,
        Err(e) => {
            eprintln!("cannot spawn: {e}");
            return 2;
        }
    };
    let stdout = child.stdout.take().unwrap();
    let (tx, rx) = mpsc::channel();
    std::thread::spawn(move || {
        let mut out = String::new();
        for l in BufReader::new(stdout).lines().map_while(Result::ok) {
            if let Some(r) = l.strip_prefix("R ") {
                out = r.to_string();
            }
        }
        let _ = tx.send(out);
    });
    let deadline = Duration::from_secs(hang_secs());
    let got = rx.recv_timeout(deadline);
    let observed: Option<Violation> = match got {
        Err(_) => {
            let _ = child.kill();
            let _ = child.wait();
            Some(Violation::new("hang", "process", "watchdog", "no result before the deadline"))
        }
        Ok(line) => {
            let st = child.wait().ok();
            if line.is_empty() {
                let desc = st.map(|s| format!("{s}")).unwrap_or_default();
                Some(Violation::new("abort", "process", desc.clone(), format!("process died: {desc}")))
            } else {
                match serde_json::from_str::<RunResult>(&line) {
                    Ok(r) => {
                        if std::env::var_os("VERIF_REPLAY_VERBOSE").is_some() {
                            for l in &r.log {
                                println!("#   {l}");
                            }
                        }
                        r.violation
                    }
                    Err(_) => None,
                }
            }
        }
    };
    let same = |a: &Violation, b: &Violation| {
        if a.class == "abort" || a.class == "hang" {
            a.class == b.class
        } else {
            a.signature() == b.signature()
        }
    };
    match observed {
        Some(v) if same(&v, &rf.violation) => {
            println!("VIOLATION property={} replay={}", rf.case.prop, path);
            println!("#   {} :: {}", v.signature(), v.detail);
            1
        }
        Some(v) => {
            println!("NOT-REPRODUCED (different violation: {} :: {})", v.signature(), v.detail);
            0
        }
        None => {
            println!("NOT-REPRODUCED");
            0
        }
    }
}

// -------------------------------------------------------------------------------------------
// CLI
// -------------------------------------------------------------------------------------------

pub fn main(engine: &dyn Engine) -> ! {
    crate::run::install_panic_hook();
    let args: Vec<String> = std::env::args().collect();
    let code = match args.get(1).map(|s| s.as_str()) {
        Some("check") if args.len() >= 4 => check(engine, &args[2], &args[3]),
        Some("worker") if args.len() >= 7 => {
            worker(engine, &args[2], &args[3], args[4].parse().unwrap(), args[5].parse().unwrap(), args[6].parse().unwrap());
            0
        }
        Some("replay") if args.len() >= 3 => replay(engine, &args[2]),
        Some("exec-case") if args.len() >= 3 => exec_case_child(engine, &args[2]),
        Some("gen") if args.len() >= 5 => {
            // gen <prop> <tier> <idx>: print the case of run idx
            let plan = engine.plan(&args[2], &args[3]);
            let c = gen_at(engine, &args[2], &plan, args[4].parse().unwrap(), master_seed());
            println!("{}", serde_json::to_string_pretty(&ReplayFile { case: c, ..Default::default() }).unwrap());
            0
        }
        Some("run") if args.len() >= 5 => {
            // run <prop> <tier> <idx>: execute one run in this process and print the result
            let plan = engine.plan(&args[2], &args[3]);
            let c = gen_at(engine, &args[2], &plan, args[4].parse().unwrap(), master_seed());
            let r = safe_exec(engine, &c, true);
            println!("{}", serde_json::to_string_pretty(&c).unwrap());
            println!("{}", serde_json::to_string_pretty(&r).unwrap());
            0
        }
        Some("plan") if args.len() >= 4 => {
            for (s, n) in engine.plan(&args[2], &args[3]) {
                println!("{s} {n}");
            }
            0
        }
        Some("props") => {
            println!("{}", engine.properties().join(" "));
            0
        }
        _ => {
            eprintln!("usage: {} check <prop> <quick|thorough> | replay <file> | gen|run <prop> <tier> <idx> | plan <prop> <tier> | props", engine.name());
            2
        }
    };
    let _ = BTreeSet::<u8>::new();
    std::process::exit(code)
}
