//! Greedy delta debugging over a `Case`, bounded in executions and wall-clock.

use crate::case::{Case, IoPolicy, WOp};
use crate::run::RunResult;
use std::time::{Duration, Instant};

pub fn minimise(case: &Case, sig: &str, exec: &dyn Fn(&Case) -> RunResult) -> Case {
    let t0 = Instant::now();
    let budget = Duration::from_secs(std::env::var("VERIF_MIN_SECS").ok().and_then(|s| s.parse().ok()).unwrap_or(30));
    let mut execs = 0u32;
    let max_execs = 250;
    let mut best = case.clone();
    let mut try_case = |cand: Case, best: &mut Case, execs: &mut u32| -> bool {
        if *execs >= max_execs || t0.elapsed() > budget || cand == *best {
            return false;
        }
        *execs += 1;
        let r = exec(&cand);
        if r.violation.as_ref().map(|v| v.signature()) == Some(sig.to_string()) {
            *best = cand;
            true
        } else {
            false
        }
    };

    // 1. drop faults
    for field in 0..3 {
        let mut i = 0;
        loop {
            let len = match field {
                0 => best.storage.len(),
                1 => best.src_faults.len(),
                _ => best.sink_faults.len(),
            };
            if i >= len {
                break;
            }
            let mut c = best.clone();
            match field {
                0 => {
                    c.storage.remove(i);
                }
                1 => {
                    c.src_faults.remove(i);
                }
                _ => {
                    c.sink_faults.remove(i);
                }
            }
            if !try_case(c, &mut best, &mut execs) {
                i += 1;
            }
        }
    }
    // 2. silence benign noise
    for which in 0..2 {
        let mut c = best.clone();
        if which == 0 {
            c.src_policy = IoPolicy::default();
        } else {
            c.sink_policy = IoPolicy::default();
        }
        try_case(c, &mut best, &mut execs);
    }
    // 3. simplify the operation history
    {
        let mut c = best.clone();
        c.wops = vec![WOp::W(usize::MAX)];
        try_case(c, &mut best, &mut execs);
        let mut c = best.clone();
        c.wops.retain(|o| !matches!(o, WOp::E));
        try_case(c, &mut best, &mut execs);
        let mut c = best.clone();
        c.wops.retain(|o| !matches!(o, WOp::F));
        try_case(c, &mut best, &mut execs);
        let mut i = 0;
        while i < best.wops.len() && best.wops.len() > 1 {
            let mut c = best.clone();
            c.wops.remove(i);
            if !try_case(c, &mut best, &mut execs) {
                i += 1;
            }
        }
        let mut c = best.clone();
        c.rbufs = vec![65536];
        try_case(c, &mut best, &mut execs);
    }
    // 4. shrink the input
    loop {
        let n = best.input.len;
        if n == 0 {
            break;
        }
        let mut progressed = false;
        for cand_len in [n / 2, n - n / 4, n - n / 16, n - 1] {
            if cand_len >= n {
                continue;
            }
            let mut c = best.clone();
            c.input.len = cand_len;
            if try_case(c, &mut best, &mut execs) {
                progressed = true;
                break;
            }
        }
        if !progressed || execs >= max_execs {
            break;
        }
    }
    for class in ["zero", "const", "text", "random"] {
        if best.input.class == class || best.input.class == "empty" {
            continue;
        }
        let mut c = best.clone();
        c.input.class = class.into();
        c.input.p1 = 0;
        c.input.p2 = 0;
        if try_case(c, &mut best, &mut execs) {
            break;
        }
    }
    // 5. options towards defaults
    let edits: Vec<Box<dyn Fn(&mut Case)>> = vec![
        Box::new(|c| c.opt.preset = None),
        Box::new(|c| c.opt.filters.clear()),
        Box::new(|c| c.opt.unit = None),
        Box::new(|c| c.opt.depth = 0),
        Box::new(|c| c.opt.nice = 32),
        Box::new(|c| {
            c.opt.lc = 3;
            c.opt.lp = 0;
            c.opt.pb = 2
        }),
        Box::new(|c| c.opt.mode = 0),
        Box::new(|c| c.opt.mf = 0),
        Box::new(|c| c.opt.dict = 4096),
        Box::new(|c| c.opt.check = 1),
        Box::new(|c| c.opt.workers = 1),
        Box::new(|c| c.sched.mode = "rr".into()),
    ];
    for e in &edits {
        let mut c = best.clone();
        e(&mut c);
        try_case(c, &mut best, &mut execs);
    }
    // knobs to zero, one at a time
    let keys: Vec<String> = best.knobs.keys().cloned().collect();
    for k in keys {
        if best.knobs.get(&k) == Some(&0) {
            continue;
        }
        let mut c = best.clone();
        c.knobs.insert(k.clone(), 0);
        try_case(c, &mut best, &mut execs);
    }
    best
}
