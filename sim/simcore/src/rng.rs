//! In-house PRNG (splitmix64 seeding, xoshiro256**). No crate, so the stream can never change.

pub fn fnv1a(s: &str) -> u64 {
    let mut h: u64 = 0xcbf29ce484222325;
    for b in s.bytes() {
        h ^= b as u64;
        h = h.wrapping_mul(0x100000001b3);
    }
    h
}

pub fn splitmix64(x: &mut u64) -> u64 {
    *x = x.wrapping_add(0x9E3779B97F4A7C15);
    let mut z = *x;
    z = (z ^ (z >> 30)).wrapping_mul(0xBF58476D1CE4E5B9);
    z = (z ^ (z >> 27)).wrapping_mul(0x94D049BB133111EB);
    z ^ (z >> 31)
}

pub fn mix(a: u64, b: u64) -> u64 {
    let mut x = a ^ b.rotate_left(32) ^ 0x5851F42D4C957F2D;
    splitmix64(&mut x)
}

/// Seed of run `idx` of scenario `scen` of property `prop` under master seed `master`.
pub fn run_seed(master: u64, prop: &str, scen: &str, idx: u64) -> u64 {
    let mut x = master ^ fnv1a(prop).rotate_left(17) ^ fnv1a(scen).rotate_left(41) ^ idx.wrapping_mul(0x9E3779B97F4A7C15);
    splitmix64(&mut x)
}

#[derive(Clone, Debug)]
pub struct Rng {
    base: u64,
    s: [u64; 4],
}

impl Rng {
    pub fn new(seed: u64) -> Self {
        let mut x = seed;
        let s = [splitmix64(&mut x), splitmix64(&mut x), splitmix64(&mut x), splitmix64(&mut x)];
        Rng { base: seed, s }
    }

    /// Independent named sub-stream; a pure function of the original seed and the name.
    pub fn fork(&self, name: &str) -> Rng {
        Rng::new(mix(self.base, fnv1a(name)))
    }

    pub fn next_u64(&mut self) -> u64 {
        let r = self.s[1].wrapping_mul(5).rotate_left(7).wrapping_mul(9);
        let t = self.s[1] << 17;
        self.s[2] ^= self.s[0];
        self.s[3] ^= self.s[1];
        self.s[1] ^= self.s[2];
        self.s[0] ^= self.s[3];
        self.s[2] ^= t;
        self.s[3] = self.s[3].rotate_left(45);
        r
    }

    /// Uniform in 0..n (n > 0).
    pub fn below(&mut self, n: u64) -> u64 {
        debug_assert!(n > 0);
        ((self.next_u64() as u128 * n as u128) >> 64) as u64
    }

    /// Uniform in lo..=hi.
    pub fn range(&mut self, lo: u64, hi: u64) -> u64 {
        if hi <= lo {
            return lo;
        }
        lo + self.below(hi - lo + 1)
    }

    pub fn urange(&mut self, lo: usize, hi: usize) -> usize {
        self.range(lo as u64, hi as u64) as usize
    }

    /// True with probability pct/100.
    pub fn pct(&mut self, pct: u64) -> bool {
        self.below(100) < pct
    }

    pub fn pick<'a, T>(&mut self, xs: &'a [T]) -> &'a T {
        &xs[self.below(xs.len() as u64) as usize]
    }

    pub fn fill(&mut self, buf: &mut [u8]) {
        for chunk in buf.chunks_mut(8) {
            let v = self.next_u64().to_le_bytes();
            chunk.copy_from_slice(&v[..chunk.len()]);
        }
    }
}

/// Order-sensitive 64-bit digest of an event stream.
#[derive(Clone, Debug)]
pub struct Digest(pub u64);

impl Default for Digest {
    fn default() -> Self {
        Digest(0x243F6A8885A308D3)
    }
}

impl Digest {
    pub fn u64(&mut self, v: u64) {
        self.0 = mix(self.0, v);
    }
    pub fn str(&mut self, s: &str) {
        self.u64(fnv1a(s));
    }
    pub fn bytes(&mut self, b: &[u8]) {
        let mut h: u64 = 0xcbf29ce484222325 ^ (b.len() as u64);
        for chunk in b.chunks(8) {
            let mut w = [0u8; 8];
            w[..chunk.len()].copy_from_slice(chunk);
            h = (h ^ u64::from_le_bytes(w)).wrapping_mul(0x100000001b3).rotate_left(29);
        }
        self.u64(h);
    }
}
