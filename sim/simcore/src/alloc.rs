//! The allocator seam: a `GlobalAlloc` wrapper over `System` with current/peak/largest counters,
//! junk-filling of non-zeroed memory and a hard ceiling per request.

use std::alloc::{GlobalAlloc, Layout, System};
use std::sync::atomic::{AtomicU64, AtomicU8, AtomicUsize, Ordering::Relaxed};

pub struct SimAlloc;

static CUR: AtomicUsize = AtomicUsize::new(0);
static PEAK: AtomicUsize = AtomicUsize::new(0);
static LARGEST: AtomicUsize = AtomicUsize::new(0);
static COUNT: AtomicU64 = AtomicU64::new(0);
/// 0 = do not fill; otherwise the byte written into fresh non-zeroed memory.
static JUNK: AtomicU8 = AtomicU8::new(0);
/// Requests above this are refused (null), which aborts the process in `handle_alloc_error`.
static CEILING: AtomicUsize = AtomicUsize::new(8 << 30);

pub const JUNK_FILL_LIMIT: usize = 1 << 20;

// ---------------------------------------------------------------------------------------------
// Guard mode ("electric fence"): while enabled, every allocation of at least GUARD_MIN bytes is
// placed in its own mapping so that its last byte is directly followed by an inaccessible page.
// A read or write one byte past the end of such a block kills the process with SIGSEGV, which
// the orchestrator attributes to the running seed. Used by the C15 workloads.
// ---------------------------------------------------------------------------------------------

static GUARD: AtomicU8 = AtomicU8::new(0);
pub const GUARD_MIN: usize = 4096;
const PAGE: usize = 4096;
const REG_SIZE: usize = 1 << 14;
#[allow(clippy::declare_interior_mutable_const)]
const REG_ZERO: AtomicUsize = AtomicUsize::new(0);
static REGISTRY: [AtomicUsize; REG_SIZE] = [REG_ZERO; REG_SIZE];
static GUARDED_ALLOCS: AtomicU64 = AtomicU64::new(0);

static GUARD_LIVE: AtomicUsize = AtomicUsize::new(0);

pub fn set_guard(on: bool) {
    GUARD.store(on as u8, Relaxed);
    if !on && GUARD_LIVE.load(Relaxed) == 0 {
        // no guarded block is alive: drop the tombstones so that look-ups stay short
        for r in REGISTRY.iter() {
            r.store(0, Relaxed);
        }
    }
}

pub fn guarded_allocations() -> u64 {
    GUARDED_ALLOCS.load(Relaxed)
}

fn reg_slot(p: usize) -> usize {
    (p >> 6).wrapping_mul(0x9E37_79B9_7F4A_7C15) >> (64 - 14)
}

fn reg_insert(p: usize) -> bool {
    let mut i = reg_slot(p);
    for _ in 0..REG_SIZE {
        if REGISTRY[i].compare_exchange(0, p, Relaxed, Relaxed).is_ok() || REGISTRY[i].compare_exchange(1, p, Relaxed, Relaxed).is_ok() {
            GUARD_LIVE.fetch_add(1, Relaxed);
            return true;
        }
        i = (i + 1) & (REG_SIZE - 1);
    }
    false
}

fn is_guarded(p: usize) -> bool {
    let mut i = reg_slot(p);
    for _ in 0..REG_SIZE {
        let v = REGISTRY[i].load(Relaxed);
        if v == p {
            return true;
        }
        if v == 0 {
            return false;
        }
        i = (i + 1) & (REG_SIZE - 1);
    }
    false
}

fn reg_remove(p: usize) -> bool {
    let mut i = reg_slot(p);
    for _ in 0..REG_SIZE {
        let v = REGISTRY[i].load(Relaxed);
        if v == p {
            // leave a tombstone (1) so that probe chains stay intact
            REGISTRY[i].store(1, Relaxed);
            GUARD_LIVE.fetch_sub(1, Relaxed);
            return true;
        }
        if v == 0 {
            return false;
        }
        i = (i + 1) & (REG_SIZE - 1);
    }
    false
}

unsafe fn guard_alloc(layout: Layout) -> *mut u8 {
    let size = layout.size();
    let rounded = (size + PAGE - 1) & !(PAGE - 1);
    let total = rounded + PAGE;
    let base = libc::mmap(std::ptr::null_mut(), total, libc::PROT_READ | libc::PROT_WRITE, libc::MAP_PRIVATE | libc::MAP_ANONYMOUS, -1, 0);
    if base == libc::MAP_FAILED {
        return std::ptr::null_mut();
    }
    let base = base as usize;
    libc::mprotect((base + rounded) as *mut libc::c_void, PAGE, libc::PROT_NONE);
    // the end of the block abuts the guard page (as closely as the alignment allows)
    let user = (base + rounded - size) & !(layout.align() - 1);
    if !reg_insert(user) {
        libc::munmap(base as *mut libc::c_void, total);
        return std::ptr::null_mut();
    }
    GUARDED_ALLOCS.fetch_add(1, Relaxed);
    user as *mut u8
}

unsafe fn guard_dealloc(ptr: *mut u8, layout: Layout) -> bool {
    let user = ptr as usize;
    if !reg_remove(user) {
        return false;
    }
    let rounded = (layout.size() + PAGE - 1) & !(PAGE - 1);
    let base = user & !(PAGE - 1);
    // `user` lies in the first page of the mapping unless alignment pushed it down, in which
    // case it is still inside [base_of_mapping, base_of_mapping + PAGE): recompute from the end
    let end = base + PAGE; // upper bound of the first page containing user
    let _ = end;
    let mapping = (user + layout.size() + PAGE - 1) & !(PAGE - 1); // = start of the guard page (rounded up end)
    let start = mapping - rounded;
    libc::munmap(start as *mut libc::c_void, rounded + PAGE);
    true
}

#[inline]
fn on_alloc(size: usize) {
    let cur = CUR.fetch_add(size, Relaxed) + size;
    PEAK.fetch_max(cur, Relaxed);
    LARGEST.fetch_max(size, Relaxed);
    COUNT.fetch_add(1, Relaxed);
}

unsafe impl GlobalAlloc for SimAlloc {
    unsafe fn alloc(&self, layout: Layout) -> *mut u8 {
        if layout.size() > CEILING.load(Relaxed) {
            LARGEST.fetch_max(layout.size(), Relaxed);
            return std::ptr::null_mut();
        }
        if GUARD.load(Relaxed) != 0 && layout.size() >= GUARD_MIN && layout.align() <= PAGE {
            let p = guard_alloc(layout);
            if !p.is_null() {
                on_alloc(layout.size());
                let j = JUNK.load(Relaxed);
                if j != 0 && layout.size() <= 2 * JUNK_FILL_LIMIT {
                    std::ptr::write_bytes(p, j, layout.size());
                }
            }
            return p;
        }
        let p = System.alloc(layout);
        if !p.is_null() {
            on_alloc(layout.size());
            let j = JUNK.load(Relaxed);
            if j != 0 {
                // Large blocks: only the first and last MiB (keeps the cost bounded).
                let n = layout.size();
                if n <= 2 * JUNK_FILL_LIMIT {
                    std::ptr::write_bytes(p, j, n);
                } else {
                    std::ptr::write_bytes(p, j, JUNK_FILL_LIMIT);
                    std::ptr::write_bytes(p.add(n - JUNK_FILL_LIMIT), j, JUNK_FILL_LIMIT);
                }
            }
        }
        p
    }

    unsafe fn alloc_zeroed(&self, layout: Layout) -> *mut u8 {
        if layout.size() > CEILING.load(Relaxed) {
            LARGEST.fetch_max(layout.size(), Relaxed);
            return std::ptr::null_mut();
        }
        if GUARD.load(Relaxed) != 0 && layout.size() >= GUARD_MIN && layout.align() <= PAGE {
            // fresh anonymous mappings are zero-filled
            let p = guard_alloc(layout);
            if !p.is_null() {
                on_alloc(layout.size());
            }
            return p;
        }
        let p = System.alloc_zeroed(layout);
        if !p.is_null() {
            on_alloc(layout.size());
        }
        p
    }

    unsafe fn dealloc(&self, ptr: *mut u8, layout: Layout) {
        CUR.fetch_sub(layout.size(), Relaxed);
        if layout.size() >= GUARD_MIN && guard_dealloc(ptr, layout) {
            return;
        }
        System.dealloc(ptr, layout)
    }

    unsafe fn realloc(&self, ptr: *mut u8, layout: Layout, new_size: usize) -> *mut u8 {
        if new_size > CEILING.load(Relaxed) {
            LARGEST.fetch_max(new_size, Relaxed);
            return std::ptr::null_mut();
        }
        if GUARD.load(Relaxed) != 0 || (layout.size() >= GUARD_MIN && is_guarded(ptr as usize)) {
            // move: allocate, copy, free (each through the guard-aware paths above)
            let new_layout = Layout::from_size_align_unchecked(new_size, layout.align());
            let np = self.alloc(new_layout);
            if !np.is_null() {
                std::ptr::copy_nonoverlapping(ptr, np, layout.size().min(new_size));
                self.dealloc(ptr, layout);
            }
            return np;
        }
        let p = System.realloc(ptr, layout, new_size);
        if !p.is_null() {
            if new_size >= layout.size() {
                on_alloc(new_size - layout.size());
                LARGEST.fetch_max(new_size, Relaxed);
                let j = JUNK.load(Relaxed);
                let grow = new_size - layout.size();
                if j != 0 && grow <= 2 * JUNK_FILL_LIMIT {
                    std::ptr::write_bytes(p.add(layout.size()), j, grow);
                }
            } else {
                CUR.fetch_sub(layout.size() - new_size, Relaxed);
            }
        }
        p
    }
}

pub fn set_junk(byte: u8) {
    JUNK.store(byte, Relaxed);
}

pub fn set_ceiling(bytes: usize) {
    CEILING.store(bytes, Relaxed);
}

pub fn current() -> usize {
    CUR.load(Relaxed)
}

/// A measurement scope: peak and largest request relative to its start.
pub struct Scope {
    base: usize,
}

impl Scope {
    pub fn begin() -> Scope {
        let base = CUR.load(Relaxed);
        PEAK.store(base, Relaxed);
        LARGEST.store(0, Relaxed);
        Scope { base }
    }
    /// Peak bytes allocated above the level at `begin`.
    pub fn peak(&self) -> usize {
        PEAK.load(Relaxed).saturating_sub(self.base)
    }
    pub fn largest(&self) -> usize {
        LARGEST.load(Relaxed)
    }
}
