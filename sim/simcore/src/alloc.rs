//! The allocator seam: a `GlobalAlloc` wrapper over `System` with current/peak/largest counters,
//! junk-filling of non-zeroed memory and a hard ceiling per request.

use std::alloc::{GlobalAlloc, Layout, System};
use std::sync::atomic::{AtomicU64, AtomicU8, AtomicUsize, Ordering::Relaxed};

pub struct SimAlloc;

static CUR: AtomicUsize = AtomicUsize::new(0);
static PEAK: AtomicUsize = AtomicUsize::new(0);
static LARGEST: AtomicUsize = AtomicUsize::new(0);
static COUNT: AtomicU64 = AtomicU64::new(0);
/// 0 = do not fill; otherwise the byte written into fresh non-zeroed memory.
static JUNK: AtomicU8 = AtomicU8::new(0);
/// Requests above this are refused (null), which aborts the process in `handle_alloc_error`.
static CEILING: AtomicUsize = AtomicUsize::new(8 << 30);

pub const JUNK_FILL_LIMIT: usize = 1 << 20;

// ---------------------------------------------------------------------------------------------
// Guard mode ("electric fence"): while enabled, every allocation of at least GUARD_MIN bytes is
// placed in its own mapping so that its last byte is directly followed by an inaccessible page.
// A read or write one byte past the end of such a block kills the process with SIGSEGV, which
// the orchestrator attributes to the running seed. Used by the C15 workloads.
// ---------------------------------------------------------------------------------------------

static GUARD: AtomicU8 = AtomicU8::new(0);
pub const GUARD_MIN: usize = 4096;
const PAGE: usize = 4096;
const REG_SIZE: usize = 1 << 14;
#[allow(clippy::declare_interior_mutable_const)]
const REG_ZERO: AtomicUsize = AtomicUsize::new(0);
static REGISTRY: [AtomicUsize; REG_SIZE] = [REG_ZERO; REG_SIZE];
static GUARDED_ALLOCS: AtomicU64 = AtomicU64::new(0);

static GUARD_LIVE: AtomicUsize = AtomicUsize::new(0);

pub fn set_guard(on: bool) {
    GUARD.store(on as u8, Relaxed);
    if !on && GUARD_LIVE.load(Relaxed) == 0 {
        // no guarded block is alive: drop the tombstones so that look-ups stay short
        for r in REGISTRY.iter() {
            r.store(0, Relaxed);
        }
    }
}

pub fn guarded_allocations() -> u64 {
    GUARDED_ALLOCS.load(Relaxed)
}

fn reg_slot(p: usize) -> usize {
    (p >> 6).wrapping_mul(0x9E37_79B9_7F4A_7C15) >> (64 - 14)
}

fn reg_insert(p: usize) -> bool {
    let mut i = reg_slot(p);
    for _ in 0..REG_SIZE {
        if REGISTRY[i].compare_exchange(0, p, Relaxed, Relaxed).is_ok() || REGISTRY[i].compare_exchange(1, p, Relaxed, Relaxed).is_ok() {
            GUARD_LIVE.fetch_add(1, Relaxed);
            return true;
        }
        i = (i + 1) & (REG_SIZE - 1);
    }
    false
}

fn is_guarded(p: usize) -> bool {
    let mut i = reg_slot(p);
    for _ in 0..REG_SIZE {
        let v = REGISTRY[i].load(Relaxed);
        if v == p {
            return true;
        }
        if v == 0 {
            return false;
        }
        i = (i + 1) & (REG_SIZE - 1);
    }
    false
}

fn reg_remove(p: usize) -> bool {
    let mut i = reg_slot(p);
    for _ in 0..REG_SIZE {
        let v = REGISTRY[i].load(Relaxed);
        if v == p {
            // leave a tombstone (1) so that probe chains stay intact
            REGISTRY[i].store(1, Relaxed);
            GUARD_LIVE.fetch_sub(1, Relaxed);
            return true;
        }
        if v == 0 {
            return false;
        }
        i = (i + 1) & (REG_SIZE - 1);
    }
    false
}

// munmap costs about a millisecond in this kind of VM, so freed guarded mappings of up to
// POOL_MAX bytes are kept (guard page in place) and handed out again for the next request of the
// same page-rounded size. A use after free of such a block is therefore not caught; an access
// behind the end of a live block still is, which is what the guard mode is for.
const POOL_SLOTS: usize = 96;
const POOL_MAX: usize = 16 << 20;
const POOL_BYTES_MAX: usize = 192 << 20;
static POOL_BYTES: AtomicUsize = AtomicUsize::new(0);

/// Mapping size for a request: whole pages up to 64 KiB, above that the next multiple of an
/// eighth of the enclosing power of two, so that requests of similar size share mappings.
fn size_class(size: usize) -> usize {
    let rounded = (size + PAGE - 1) & !(PAGE - 1);
    if rounded <= (64 << 10) {
        return rounded;
    }
    let step = (rounded.next_power_of_two() >> 4).max(PAGE);
    (rounded + step - 1) / step * step
}
static POOL_BASE: [AtomicUsize; POOL_SLOTS] = [REG_ZERO; POOL_SLOTS];
static POOL_SIZE: [AtomicUsize; POOL_SLOTS] = [REG_ZERO; POOL_SLOTS];

fn pool_take(rounded: usize) -> usize {
    for i in 0..POOL_SLOTS {
        if POOL_SIZE[i].load(Relaxed) == rounded {
            let b = POOL_BASE[i].swap(0, Relaxed);
            if b != 0 {
                POOL_SIZE[i].store(0, Relaxed);
                POOL_BYTES.fetch_sub(rounded, Relaxed);
                return b;
            }
        }
    }
    0
}

fn pool_put(base: usize, rounded: usize) -> bool {
    if rounded > POOL_MAX || POOL_BYTES.load(Relaxed) + rounded > POOL_BYTES_MAX {
        return false;
    }
    for i in 0..POOL_SLOTS {
        if POOL_SIZE[i].compare_exchange(0, rounded, Relaxed, Relaxed).is_ok() {
            POOL_BASE[i].store(base, Relaxed);
            POOL_BYTES.fetch_add(rounded, Relaxed);
            return true;
        }
    }
    false
}

unsafe fn guard_alloc(layout: Layout, zeroed: bool) -> *mut u8 {
    let size = layout.size();
    let rounded = size_class(size);
    let total = rounded + PAGE;
    let mut base = pool_take(rounded);
    if base != 0 {
        if zeroed {
            std::ptr::write_bytes(base as *mut u8, 0, rounded);
        }
    } else {
        let m = libc::mmap(std::ptr::null_mut(), total, libc::PROT_READ | libc::PROT_WRITE, libc::MAP_PRIVATE | libc::MAP_ANONYMOUS, -1, 0);
        if m == libc::MAP_FAILED {
            return std::ptr::null_mut();
        }
        base = m as usize;
        libc::mprotect((base + rounded) as *mut libc::c_void, PAGE, libc::PROT_NONE);
    }
    // the end of the block abuts the guard page (as closely as the alignment allows)
    let user = (base + rounded - size) & !(layout.align() - 1);
    if !reg_insert(user) {
        libc::munmap(base as *mut libc::c_void, total);
        return std::ptr::null_mut();
    }
    GUARDED_ALLOCS.fetch_add(1, Relaxed);
    user as *mut u8
}

unsafe fn guard_dealloc(ptr: *mut u8, layout: Layout) -> bool {
    let user = ptr as usize;
    if !reg_remove(user) {
        return false;
    }
    let rounded = size_class(layout.size());
    // the block ends (up to alignment slack) at the guard page: recompute the mapping from there
    let mapping = (user + layout.size() + PAGE - 1) & !(PAGE - 1); // = start of the guard page (rounded up end)
    let start = mapping - rounded;
    if !pool_put(start, rounded) {
        libc::munmap(start as *mut libc::c_void, rounded + PAGE);
    }
    true
}

#[inline]
fn on_alloc(size: usize) {
    let cur = CUR.fetch_add(size, Relaxed) + size;
    PEAK.fetch_max(cur, Relaxed);
    LARGEST.fetch_max(size, Relaxed);
    COUNT.fetch_add(1, Relaxed);
}

unsafe impl GlobalAlloc for SimAlloc {
    unsafe fn alloc(&self, layout: Layout) -> *mut u8 {
        if layout.size() > CEILING.load(Relaxed) {
            LARGEST.fetch_max(layout.size(), Relaxed);
            return std::ptr::null_mut();
        }
        if GUARD.load(Relaxed) != 0 && layout.size() >= GUARD_MIN && layout.align() <= PAGE {
            let p = guard_alloc(layout, false);
            if !p.is_null() {
                on_alloc(layout.size());
                let j = JUNK.load(Relaxed);
                if j != 0 && layout.size() <= 2 * JUNK_FILL_LIMIT {
                    std::ptr::write_bytes(p, j, layout.size());
                }
            }
            return p;
        }
        let p = System.alloc(layout);
        if !p.is_null() {
            on_alloc(layout.size());
            let j = JUNK.load(Relaxed);
            if j != 0 {
                // Large blocks: only the first and last MiB (keeps the cost bounded).
                let n = layout.size();
                if n <= 2 * JUNK_FILL_LIMIT {
                    std::ptr::write_bytes(p, j, n);
                } else {
                    std::ptr::write_bytes(p, j, JUNK_FILL_LIMIT);
                    std::ptr::write_bytes(p.add(n - JUNK_FILL_LIMIT), j, JUNK_FILL_LIMIT);
                }
            }
        }
        p
    }

    unsafe fn alloc_zeroed(&self, layout: Layout) -> *mut u8 {
        if layout.size() > CEILING.load(Relaxed) {
            LARGEST.fetch_max(layout.size(), Relaxed);
            return std::ptr::null_mut();
        }
        if GUARD.load(Relaxed) != 0 && layout.size() >= GUARD_MIN && layout.align() <= PAGE {
            // fresh anonymous mappings are zero-filled, recycled ones are cleared
            let p = guard_alloc(layout, true);
            if !p.is_null() {
                on_alloc(layout.size());
            }
            return p;
        }
        let p = System.alloc_zeroed(layout);
        if !p.is_null() {
            on_alloc(layout.size());
        }
        p
    }

    unsafe fn dealloc(&self, ptr: *mut u8, layout: Layout) {
        CUR.fetch_sub(layout.size(), Relaxed);
        if layout.size() >= GUARD_MIN && guard_dealloc(ptr, layout) {
            return;
        }
        System.dealloc(ptr, layout)
    }

    unsafe fn realloc(&self, ptr: *mut u8, layout: Layout, new_size: usize) -> *mut u8 {
        if new_size > CEILING.load(Relaxed) {
            LARGEST.fetch_max(new_size, Relaxed);
            return std::ptr::null_mut();
        }
        if GUARD.load(Relaxed) != 0 || (layout.size() >= GUARD_MIN && is_guarded(ptr as usize)) {
            // move: allocate, copy, free (each through the guard-aware paths above)
            let new_layout = Layout::from_size_align_unchecked(new_size, layout.align());
            let np = self.alloc(new_layout);
            if !np.is_null() {
                std::ptr::copy_nonoverlapping(ptr, np, layout.size().min(new_size));
                self.dealloc(ptr, layout);
            }
            return np;
        }
        let p = System.realloc(ptr, layout, new_size);
        if !p.is_null() {
            if new_size >= layout.size() {
                on_alloc(new_size - layout.size());
                LARGEST.fetch_max(new_size, Relaxed);
                let j = JUNK.load(Relaxed);
                let grow = new_size - layout.size();
                if j != 0 && grow <= 2 * JUNK_FILL_LIMIT {
                    std::ptr::write_bytes(p.add(layout.size()), j, grow);
                }
            } else {
                CUR.fetch_sub(layout.size() - new_size, Relaxed);
            }
        }
        p
    }
}

pub fn set_junk(byte: u8) {
    JUNK.store(byte, Relaxed);
}

pub fn set_ceiling(bytes: usize) {
    CEILING.store(bytes, Relaxed);
}

pub fn current() -> usize {
    CUR.load(Relaxed)
}

/// A measurement scope: peak and largest request relative to its start.
pub struct Scope {
    base: usize,
}

impl Scope {
    pub fn begin() -> Scope {
        let base = CUR.load(Relaxed);
        PEAK.store(base, Relaxed);
        LARGEST.store(0, Relaxed);
        Scope { base }
    }
    /// Peak bytes allocated above the level at `begin`.
    pub fn peak(&self) -> usize {
        PEAK.load(Relaxed).saturating_sub(self.base)
    }
    pub fn largest(&self) -> usize {
        LARGEST.load(Relaxed)
    }
}
