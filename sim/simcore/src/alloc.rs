//! The allocator seam: a `GlobalAlloc` wrapper over `System` with current/peak/largest counters,
//! junk-filling of non-zeroed memory and a hard ceiling per request.

use std::alloc::{GlobalAlloc, Layout, System};
use std::sync::atomic::{AtomicU64, AtomicU8, AtomicUsize, Ordering::Relaxed};

pub struct SimAlloc;

static CUR: AtomicUsize = AtomicUsize::new(0);
static PEAK: AtomicUsize = AtomicUsize::new(0);
static LARGEST: AtomicUsize = AtomicUsize::new(0);
static COUNT: AtomicU64 = AtomicU64::new(0);
/// 0 = do not fill; otherwise the byte written into fresh non-zeroed memory.
static JUNK: AtomicU8 = AtomicU8::new(0);
/// Requests above this are refused (null), which aborts the process in `handle_alloc_error`.
static CEILING: AtomicUsize = AtomicUsize::new(8 << 30);

pub const JUNK_FILL_LIMIT: usize = 1 << 20;

#[inline]
fn on_alloc(size: usize) {
    let cur = CUR.fetch_add(size, Relaxed) + size;
    PEAK.fetch_max(cur, Relaxed);
    LARGEST.fetch_max(size, Relaxed);
    COUNT.fetch_add(1, Relaxed);
}

unsafe impl GlobalAlloc for SimAlloc {
    unsafe fn alloc(&self, layout: Layout) -> *mut u8 {
        if layout.size() > CEILING.load(Relaxed) {
            LARGEST.fetch_max(layout.size(), Relaxed);
            return std::ptr::null_mut();
        }
        let p = System.alloc(layout);
        if !p.is_null() {
            on_alloc(layout.size());
            let j = JUNK.load(Relaxed);
            if j != 0 {
                // Large blocks: only the first and last MiB (keeps the cost bounded).
                let n = layout.size();
                if n <= 2 * JUNK_FILL_LIMIT {
                    std::ptr::write_bytes(p, j, n);
                } else {
                    std::ptr::write_bytes(p, j, JUNK_FILL_LIMIT);
                    std::ptr::write_bytes(p.add(n - JUNK_FILL_LIMIT), j, JUNK_FILL_LIMIT);
                }
            }
        }
        p
    }

    unsafe fn alloc_zeroed(&self, layout: Layout) -> *mut u8 {
        if layout.size() > CEILING.load(Relaxed) {
            LARGEST.fetch_max(layout.size(), Relaxed);
            return std::ptr::null_mut();
        }
        let p = System.alloc_zeroed(layout);
        if !p.is_null() {
            on_alloc(layout.size());
        }
        p
    }

    unsafe fn dealloc(&self, ptr: *mut u8, layout: Layout) {
        CUR.fetch_sub(layout.size(), Relaxed);
        System.dealloc(ptr, layout)
    }

    unsafe fn realloc(&self, ptr: *mut u8, layout: Layout, new_size: usize) -> *mut u8 {
        if new_size > CEILING.load(Relaxed) {
            LARGEST.fetch_max(new_size, Relaxed);
            return std::ptr::null_mut();
        }
        let p = System.realloc(ptr, layout, new_size);
        if !p.is_null() {
            if new_size >= layout.size() {
                on_alloc(new_size - layout.size());
                LARGEST.fetch_max(new_size, Relaxed);
                let j = JUNK.load(Relaxed);
                let grow = new_size - layout.size();
                if j != 0 && grow <= 2 * JUNK_FILL_LIMIT {
                    std::ptr::write_bytes(p.add(layout.size()), j, grow);
                }
            } else {
                CUR.fetch_sub(layout.size() - new_size, Relaxed);
            }
        }
        p
    }
}

pub fn set_junk(byte: u8) {
    JUNK.store(byte, Relaxed);
}

pub fn set_ceiling(bytes: usize) {
    CEILING.store(bytes, Relaxed);
}

pub fn current() -> usize {
    CUR.load(Relaxed)
}

/// A measurement scope: peak and largest request relative to its start.
pub struct Scope {
    base: usize,
}

impl Scope {
    pub fn begin() -> Scope {
        let base = CUR.load(Relaxed);
        PEAK.store(base, Relaxed);
        LARGEST.store(0, Relaxed);
        Scope { base }
    }
    /// Peak bytes allocated above the level at `begin`.
    pub fn peak(&self) -> usize {
        PEAK.load(Relaxed).saturating_sub(self.base)
    }
    pub fn largest(&self) -> usize {
        LARGEST.load(Relaxed)
    }
}
