//! The replayable description of one simulated run.

use crate::rng::Rng;
use serde::{Deserialize, Serialize};
use std::collections::BTreeMap;

#[derive(Serialize, Deserialize, Clone, Debug, Default, PartialEq)]
pub struct InputSpec {
    pub class: String,
    pub len: usize,
    #[serde(default)]
    pub seed: u64,
    #[serde(default)]
    pub p1: u64,
    #[serde(default)]
    pub p2: u64,
}

#[derive(Serialize, Deserialize, Clone, Debug, PartialEq)]
pub struct Opts {
    pub dict: u32,
    pub lc: u32,
    pub lp: u32,
    pub pb: u32,
    /// 0 = fast, 1 = normal
    pub mode: u8,
    pub nice: u32,
    /// 0 = HC4, 1 = BT4
    pub mf: u8,
    pub depth: i32,
    #[serde(default)]
    pub preset: Option<InputSpec>,
    /// LZMA2 chunk_size / XZ block_size / LZIP member_size (whatever the format calls its unit).
    #[serde(default)]
    pub unit: Option<u64>,
    /// XZ check: 0 none, 1 crc32, 4 crc64, 10 sha256
    #[serde(default)]
    pub check: u8,
    /// XZ pre-filters: (kind, property). kind: 3 delta, 4 x86, 5 ppc, 6 ia64, 7 arm, 8 armthumb,
    /// 9 sparc, 10 arm64, 11 riscv
    #[serde(default)]
    pub filters: Vec<(u8, u32)>,
    #[serde(default)]
    pub workers: u32,
}

impl Default for Opts {
    fn default() -> Self {
        Opts { dict: 4096, lc: 3, lp: 0, pb: 2, mode: 0, nice: 32, mf: 0, depth: 0, preset: None, unit: None, check: 1, filters: vec![], workers: 1 }
    }
}

#[derive(Serialize, Deserialize, Clone, Debug, PartialEq)]
pub enum WOp {
    /// write the next n bytes of the input in one `write_all`-style loop
    W(usize),
    /// `flush()`
    F,
    /// `write(&[])`
    E,
}

#[derive(Serialize, Deserialize, Clone, Debug, Default, PartialEq)]
pub struct IoFault {
    /// index of the read/write (or seek/flush) call at which it fires
    pub at: u64,
    /// read side: "err_p" "err_t" "intr" "short" "eof" "seek_err"; write side: "err_p" "err_t"
    /// "intr" "short" "zero" "flush_err"
    pub kind: String,
    /// error kind code (see io::errkind) or byte count for "short"
    #[serde(default)]
    pub arg: u64,
}

/// Benign noise applied to every call, derived from `seed`.
#[derive(Serialize, Deserialize, Clone, Debug, Default, PartialEq)]
pub struct IoPolicy {
    pub seed: u64,
    /// percent of calls answered with at most `max_chunk` bytes
    pub short_pct: u8,
    pub max_chunk: u32,
    /// percent of calls answered with ErrorKind::Interrupted
    pub intr_pct: u8,
}

#[derive(Serialize, Deserialize, Clone, Debug, Default, PartialEq)]
pub struct StFault {
    /// "bitflip" "subst" "zero" "delete" "insert" "dup" "swap" "trunc" "field"
    pub kind: String,
    #[serde(default)]
    pub a: u64,
    #[serde(default)]
    pub b: u64,
    #[serde(default)]
    pub c: u64,
    #[serde(default)]
    pub name: String,
}

#[derive(Serialize, Deserialize, Clone, Debug, Default, PartialEq)]
pub struct Sched {
    /// "rr" (round robin, no preemption), "random", "pct", "replay"
    pub mode: String,
    #[serde(default)]
    pub seed: u64,
    #[serde(default)]
    pub depth: u32,
    /// recorded decisions (index into the sorted runnable list) for "replay"
    #[serde(default)]
    pub decisions: Vec<u32>,
}

#[derive(Serialize, Deserialize, Clone, Debug, Default, PartialEq)]
pub struct Case {
    pub prop: String,
    pub scen: String,
    pub seed: u64,
    pub fmt: String,
    #[serde(default)]
    pub opt: Opts,
    #[serde(default)]
    pub input: InputSpec,
    #[serde(default)]
    pub wops: Vec<WOp>,
    #[serde(default)]
    pub rbufs: Vec<u32>,
    #[serde(default)]
    pub src_policy: IoPolicy,
    #[serde(default)]
    pub sink_policy: IoPolicy,
    #[serde(default)]
    pub src_faults: Vec<IoFault>,
    #[serde(default)]
    pub sink_faults: Vec<IoFault>,
    #[serde(default)]
    pub storage: Vec<StFault>,
    #[serde(default)]
    pub sched: Sched,
    /// scenario-specific integers (history id, bias, trailing kind, drop point, ...)
    #[serde(default)]
    pub knobs: BTreeMap<String, i64>,
}

impl Case {
    pub fn knob(&self, k: &str) -> i64 {
        *self.knobs.get(k).unwrap_or(&0)
    }
    pub fn knob_or(&self, k: &str, d: i64) -> i64 {
        *self.knobs.get(k).unwrap_or(&d)
    }
    pub fn set(&mut self, k: &str, v: i64) {
        self.knobs.insert(k.to_string(), v);
    }
    pub fn read_sizes(&self) -> Vec<usize> {
        if self.rbufs.is_empty() {
            vec![65536]
        } else {
            self.rbufs.iter().map(|&x| x as usize).collect()
        }
    }
}

#[derive(Serialize, Deserialize, Clone, Debug, Default, PartialEq)]
pub struct Violation {
    pub class: String,
    pub component: String,
    pub site: String,
    #[serde(default)]
    pub detail: String,
}

impl Violation {
    pub fn new(class: &str, component: &str, site: impl Into<String>, detail: impl Into<String>) -> Self {
        Violation { class: class.into(), component: component.into(), site: site.into(), detail: detail.into() }
    }
    pub fn signature(&self) -> String {
        format!("{}|{}|{}", self.class, self.component, self.site)
    }
}

#[derive(Serialize, Deserialize, Clone, Debug, Default)]
pub struct ReplayFile {
    pub case: Case,
    pub violation: Violation,
    #[serde(default)]
    pub minimised: bool,
    #[serde(default)]
    pub original_seed: u64,
    /// "unoptimised" when the finding comes from the dev-profile binary (C15's second pass):
    /// `./check replay` then uses the same kind of binary.
    #[serde(default)]
    pub build: String,
}

// ---------------------------------------------------------------------------------------------
// Input generation
// ---------------------------------------------------------------------------------------------

static TEXT: &[u8] = include_bytes!("/repo/tests/data/apache2.txt");

/// Real machine code for the "code" class is read lazily from /repo/tests/data.
fn code_blob(which: u64) -> &'static [u8] {
    use std::sync::OnceLock;
    static BLOBS: OnceLock<Vec<Vec<u8>>> = OnceLock::new();
    let blobs = BLOBS.get_or_init(|| {
        let names = ["wget-x86", "wget-arm", "wget-arm-thumb", "wget-arm64", "wget-ppc", "wget-sparc", "wget-ia64", "wget-riscv"];
        names
            .iter()
            .map(|n| std::fs::read(format!("/repo/tests/data/{n}")).unwrap_or_else(|_| TEXT.to_vec()))
            .collect()
    });
    &blobs[(which as usize) % blobs.len()]
}

pub const INPUT_CLASSES: &[&str] = &["empty", "const", "periodic", "random", "mixed", "text", "code", "counter", "incomp_then_comp", "far_repeat", "zero", "lowent", "copies", "sandwich", "x86soup", "mutperiod", "stop_lookahead"];

impl InputSpec {
    pub fn new(class: &str, len: usize, seed: u64) -> Self {
        InputSpec { class: class.into(), len, seed, p1: 0, p2: 0 }
    }

    /// Generates the bytes. A pure function of the spec.
    pub fn gen(&self) -> Vec<u8> {
        let n = self.len;
        let mut rng = Rng::new(self.seed ^ 0xA5A5_5A5A_1234_5678);
        let mut out = vec![0u8; n];
        match self.class.as_str() {
            "empty" => out.clear(),
            "zero" => {}
            "const" => out.fill((self.p1 & 0xFF) as u8),
            "periodic" => {
                let p = (self.p1.max(1) as usize).min(4096);
                let mut pat = vec![0u8; p];
                rng.fill(&mut pat);
                for (i, b) in out.iter_mut().enumerate() {
                    *b = pat[i % p];
                }
            }
            "random" => rng.fill(&mut out),
            "stop_lookahead" => {
                // Match-free data (every pair of bytes occurs once per 64 KiB: a de Bruijn
                // sequence of order 2, so an encoder with a smaller dictionary codes literals
                // only and reaches every position without overshooting) with three planted
                // matches around position p2: forty bytes before it a match of length 8 at
                // distance p1 (the dictionary size: the largest distance there is; it stays
                // rep0 while only literals follow), and at p2 a match of length 3 followed at
                // p2 + 1 by one of length 6, so that a lazy matcher codes p2 as a literal and
                // keeps the matches of p2 + 1 for its next call. If the encoder runs out of
                // input exactly there, its look-ahead is outstanding across the window move.
                let mut cycle = Vec::with_capacity(65536);
                for a in 0..=255u8 {
                    cycle.push(a);
                    for b in (a as u16 + 1)..=255 {
                        cycle.push(a);
                        cycle.push(b as u8);
                    }
                }
                let rot = (self.seed % 65536) as usize;
                for (i, b) in out.iter_mut().enumerate() {
                    *b = cycle[(i + rot) % cycle.len()];
                }
                let d = self.p1 as usize;
                let p = self.p2 as usize;
                if d >= 1 && p >= d + 400 && p + 8 <= n {
                    let q = p - 40;
                    for i in 0..8 {
                        out[q + i] = out[q - d + i];
                    }
                    let (x, y, z) = (out[p - 400], out[p - 399], out[p - 398]);
                    out[p - 150] = y;
                    out[p - 149] = z;
                    out[p] = x;
                    out[p + 1] = y;
                    out[p + 2] = z;
                    for i in 0..4 {
                        out[p + 3 + i] = out[p - 148 + i];
                    }
                }
            }
            "mutperiod" => {
                // a random block of p1 bytes repeated (every position has a match at distance
                // p1, typically the dictionary size: the largest distance there is), with single
                // bytes changed every p2 bytes on average, so that the matches are short and the
                // encoder keeps comparing the match at p with the one at p + 1
                let p = self.p1.max(1) as usize;
                // p2 = gap + 1000 * alphabet size (0: all byte values). A small alphabet gives
                // the changed byte a short match somewhere else, which is what makes the lazy
                // matcher look at p + 1.
                let alpha = (self.p2 / 1000).min(255);
                let mut pat = vec![0u8; p.min(n.max(1))];
                rng.fill(&mut pat);
                if alpha >= 2 {
                    pat.iter_mut().for_each(|b| *b = b'a' + (*b as u64 % alpha) as u8);
                }
                for (i, b) in out.iter_mut().enumerate() {
                    *b = pat[i % pat.len()];
                }
                let gap = (self.p2 % 1000).max(2) as usize;
                let mut i = rng.urange(0, gap);
                while i < n {
                    out[i] = if alpha >= 2 { b'a' + ((out[i] - b'a') as u64 + 1 + rng.below(alpha - 1)) as u8 % alpha as u8 } else { out[i].wrapping_add(1 + rng.below(255) as u8) };
                    i += rng.urange(1, 2 * gap);
                }
            }
            "lowent" => {
                // few symbols, random order: compressible but match-poor
                let k = (self.p1.max(2)).min(16);
                for b in out.iter_mut() {
                    *b = b'a' + rng.below(k) as u8;
                }
            }
            "copies" => {
                // short matches everywhere (small alphabet), plus occasional long copies of
                // earlier material: keeps the optimal parser busy over its whole look-ahead and
                // then meets a match much longer than nice_len
                let k = (self.p1.max(2)).min(16);
                for b in out.iter_mut() {
                    *b = b'a' + rng.below(k) as u8;
                }
                let gap = (self.p2.max(200)) as usize;
                let mut i = gap;
                while i + 500 < n {
                    let len = rng.urange(66, 420);
                    let from = rng.urange(0, i - 1);
                    for j in 0..len {
                        out[i + j] = out[from + (j % (i - from))];
                    }
                    i += len + rng.urange(gap / 2, gap * 2);
                }
            }
            "counter" => {
                // position-distinguishable: 4-byte big-endian counter woven with a constant
                for (i, b) in out.iter_mut().enumerate() {
                    let w = (i / 4) as u32;
                    *b = w.to_be_bytes()[i % 4];
                }
            }
            "mixed" => {
                // alternating runs of random and repetitive data
                let mut i = 0;
                let mut toggle = rng.pct(50);
                while i < n {
                    let run = rng.urange(1, (self.p1.max(64) as usize).min(n.max(1))).min(n - i);
                    if toggle {
                        rng.fill(&mut out[i..i + run]);
                    } else {
                        let c = rng.next_u64() as u8;
                        let p = rng.urange(1, 9);
                        for j in 0..run {
                            out[i + j] = c.wrapping_add((j % p) as u8);
                        }
                    }
                    toggle = !toggle;
                    i += run;
                }
            }
            "text" => {
                let off = (self.p1 as usize) % TEXT.len();
                for (i, b) in out.iter_mut().enumerate() {
                    *b = TEXT[(off + i) % TEXT.len()];
                }
            }
            "code" => {
                let blob = code_blob(self.p1);
                let off = if blob.len() > n { (self.p2 as usize) % (blob.len() - n) } else { 0 };
                for (i, b) in out.iter_mut().enumerate() {
                    *b = blob[(off + i) % blob.len()];
                }
            }
            "x86soup" => {
                // E8/E9 opcode bytes in clusters, operands whose top byte is 00 or FF, two-byte
                // jumps (0F 8x): everything the x86 BCJ filter keeps state about, densely packed
                for b in out.iter_mut() {
                    *b = match rng.below(20) {
                        0..=5 => 0xE8,
                        6 | 7 => 0xE9,
                        8..=11 => 0x00,
                        12..=14 => 0xFF,
                        15 => 0x0F,
                        16 => 0x80 + rng.below(16) as u8,
                        _ => rng.next_u64() as u8,
                    };
                }
            }
            "sandwich" => {
                // compressible head (p1 bytes), incompressible middle (p2 bytes), compressible
                // tail: LZMA2 encoders store the middle as uncompressed chunks and have to reset
                // the coder state (control 0xA0 / 0xC0, no dictionary reset) for the tail
                let head = (self.p1 as usize).min(n);
                let mid = (self.p2 as usize).min(n - head);
                for (i, b) in out[..head].iter_mut().enumerate() {
                    *b = TEXT[i % TEXT.len()];
                }
                rng.fill(&mut out[head..head + mid]);
                for (i, b) in out[head + mid..].iter_mut().enumerate() {
                    *b = TEXT[(i + 777) % TEXT.len()];
                }
            }
            "incomp_then_comp" => {
                let cut = ((self.p1 as usize).min(100) * n) / 100;
                rng.fill(&mut out[..cut]);
                for (i, b) in out[cut..].iter_mut().enumerate() {
                    *b = TEXT[i % TEXT.len()];
                }
            }
            "far_repeat" => {
                // random block R of p1 bytes, filler, then R again at distance p2
                let r = (self.p1 as usize).max(1).min(n.max(1));
                let dist = (self.p2 as usize).max(r);
                rng.fill(&mut out);
                let mut i = dist;
                while i + r <= n {
                    let (a, b) = out.split_at_mut(i);
                    b[..r].copy_from_slice(&a[i - dist..i - dist + r]);
                    i += dist + r;
                }
                // compressible filler in a third of the gaps
                let fill_from = r.min(n);
                let fill_to = dist.min(n);
                if self.seed & 1 == 0 && fill_to > fill_from {
                    for (k, b) in out[fill_from..fill_to].iter_mut().enumerate() {
                        *b = TEXT[k % TEXT.len()];
                    }
                }
            }
            _ => rng.fill(&mut out),
        }
        out
    }
}

/// Lengths biased to the interesting boundaries.
pub fn biased_len(rng: &mut Rng, max: usize, anchors: &[usize]) -> usize {
    let max = max.max(1);
    match rng.below(10) {
        0 => rng.urange(0, 16.min(max)),
        1 | 2 | 3 if !anchors.is_empty() => {
            let a = *rng.pick(anchors);
            let d = rng.urange(0, 40) as i64 - 20;
            ((a as i64 + d).max(0) as usize).min(max)
        }
        4 | 5 => rng.urange(0, max.min(2048)),
        _ => rng.urange(0, max),
    }
}

pub fn random_input(rng: &mut Rng, len: usize, dict: u32) -> InputSpec {
    let class = *rng.pick(&["const", "periodic", "random", "mixed", "text", "code", "counter", "incomp_then_comp", "far_repeat", "zero", "lowent", "mixed", "text", "far_repeat", "copies", "copies"]);
    let mut s = InputSpec::new(class, len, rng.next_u64());
    match class {
        "const" => s.p1 = rng.below(256),
        "periodic" => s.p1 = *rng.pick(&[1u64, 2, 3, 4, 7, 13, 64, 255, 256, 257, 1000]),
        "lowent" => s.p1 = rng.range(2, 16),
        "copies" => {
            s.p1 = rng.range(2, 8);
            s.p2 = *rng.pick(&[300u64, 1000, 4200, 6000]);
        }
        "mixed" => s.p1 = *rng.pick(&[64u64, 300, 3000, 40000]),
        "text" => s.p1 = rng.below(11356),
        "code" => {
            s.p1 = rng.below(8);
            s.p2 = rng.next_u64() >> 20;
        }
        "incomp_then_comp" => s.p1 = rng.range(5, 95),
        "far_repeat" => {
            s.p1 = *rng.pick(&[8u64, 64, 300, 5000]);
            let d = dict as u64;
            s.p2 = *rng.pick(&[d / 2, d - 64, d - 1, d, d + 1, d + 64, 2 * d, 1000, 70000]);
        }
        _ => {}
    }
    if len == 0 {
        s.class = "empty".into();
    }
    s
}

/// A "sandwich" input large enough for an LZMA2 encoder to emit full uncompressed chunks in the
/// middle (> 128 KiB of noise) and a state-reset chunk of at most 64 KiB for the tail.
pub fn sandwich_input(rng: &mut Rng) -> InputSpec {
    let head = rng.urange(2_000, 50_000);
    let mid = rng.urange(132_000, 210_000);
    let tail = if rng.pct(70) { rng.urange(1, 60_000) } else { rng.urange(60_000, 140_000) };
    let mut s = InputSpec::new("sandwich", head + mid + tail, rng.next_u64());
    s.p1 = head as u64;
    s.p2 = mid as u64;
    s
}

/// Random partition of `len` bytes into write calls with flushes and empty writes.
pub fn random_wops(rng: &mut Rng, len: usize, allow_flush: bool, max_ops: usize) -> Vec<WOp> {
    let style = rng.below(6);
    let mut ops = Vec::new();
    match style {
        0 => ops.push(WOp::W(len)),
        1 => {
            // one huge then tiny
            let first = len - len.min(rng.urange(0, 20));
            ops.push(WOp::W(first));
            let mut left = len - first;
            while left > 0 {
                let k = rng.urange(1, 3).min(left);
                ops.push(WOp::W(k));
                left -= k;
            }
        }
        2 if len <= max_ops => {
            for _ in 0..len {
                ops.push(WOp::W(1));
            }
        }
        _ => {
            let mut left = len;
            let pieces = rng.urange(1, max_ops.min(24).max(1));
            for i in 0..pieces {
                if left == 0 {
                    break;
                }
                let k = if i + 1 == pieces { left } else { biased_len(rng, left, &[4096, 65536]).min(left) };
                if rng.pct(10) {
                    ops.push(WOp::E);
                }
                ops.push(WOp::W(k));
                left -= k;
                if allow_flush && rng.pct(15) {
                    ops.push(WOp::F);
                }
            }
        }
    }
    if allow_flush && rng.pct(10) {
        ops.push(WOp::F);
    }
    ops
}

pub fn random_rbufs(rng: &mut Rng) -> Vec<u32> {
    match rng.below(6) {
        0 => vec![65536],
        1 => vec![1],
        2 => vec![*rng.pick(&[2u32, 3, 5, 7, 13, 4095, 4096, 4097])],
        3 => vec![1 << 22],
        _ => {
            let n = rng.urange(2, 8);
            (0..n).map(|_| *rng.pick(&[1u32, 2, 3, 5, 7, 64, 100, 1000, 4095, 4096, 4097, 65536, 200000])).collect()
        }
    }
}

pub fn benign_policy(rng: &mut Rng) -> IoPolicy {
    match rng.below(4) {
        0 => IoPolicy::default(),
        1 => IoPolicy { seed: rng.next_u64(), short_pct: 100, max_chunk: rng.range(1, 7) as u32, intr_pct: 0 },
        2 => IoPolicy { seed: rng.next_u64(), short_pct: rng.range(10, 90) as u8, max_chunk: *rng.pick(&[1u32, 3, 64, 1000, 5000]), intr_pct: rng.range(0, 30) as u8 },
        _ => IoPolicy { seed: rng.next_u64(), short_pct: 0, max_chunk: 0, intr_pct: rng.range(5, 40) as u8 },
    }
}
