//! Result of one simulated run and helpers to build it.

use crate::case::Violation;
use crate::io::IoStats;
use crate::rng::Digest;
use serde::{Deserialize, Serialize};
use std::cell::RefCell;
use std::collections::BTreeMap;
use std::panic::{self, AssertUnwindSafe};

#[derive(Serialize, Deserialize, Clone, Debug, Default)]
pub struct RunResult {
    pub digest: u64,
    pub nontrivial: bool,
    /// simulator steps: I/O calls plus scheduler decisions
    pub steps: u64,
    pub fired: BTreeMap<String, u64>,
    pub probes: BTreeMap<String, u64>,
    pub violation: Option<Violation>,
    /// hash of the scheduler decision list (MT runs)
    pub sched_hash: Option<u64>,
    /// first lines of the event log (only when requested)
    #[serde(default)]
    pub log: Vec<String>,
    /// free-form numbers for evidence (bytes in/out, units, ...)
    #[serde(default)]
    pub metrics: BTreeMap<String, u64>,
    /// number of sub-cases this run evaluated (1 for a plain run)
    #[serde(default = "one")]
    pub evals: u64,
    /// for enumerating runs: how many of the sub-cases were distinct and non-trivial
    #[serde(default)]
    pub distinct_sub: u64,
    /// knobs that pin the failing sub-case of an enumerating run (merged into the case)
    #[serde(default)]
    pub pin: BTreeMap<String, i64>,
}

fn one() -> u64 {
    1
}

/// Accumulates the event log of a run.
#[derive(Default)]
pub struct Ctx {
    pub digest: Digest,
    pub steps: u64,
    pub fired: BTreeMap<String, u64>,
    pub probes: BTreeMap<String, u64>,
    pub metrics: BTreeMap<String, u64>,
    pub log: Vec<String>,
    pub keep_log: bool,
    pub nontrivial: bool,
    pub sched_hash: Option<u64>,
    pub evals: u64,
    pub distinct_sub: u64,
    pub pin: BTreeMap<String, i64>,
}

impl Ctx {
    pub fn new(keep_log: bool) -> Self {
        Ctx { keep_log, ..Default::default() }
    }
    pub fn ev(&mut self, what: &str, v: u64) {
        self.digest.str(what);
        self.digest.u64(v);
        if self.keep_log && self.log.len() < 200 {
            self.log.push(format!("{what} {v}"));
        }
    }
    pub fn bytes(&mut self, what: &str, b: &[u8]) {
        self.digest.str(what);
        self.digest.bytes(b);
        if self.keep_log && self.log.len() < 200 {
            self.log.push(format!("{what} len={} h={:016x}", b.len(), crate::rng::mix(b.len() as u64, { let mut d = Digest::default(); d.bytes(b); d.0 })));
        }
    }
    pub fn fire(&mut self, kind: &str, n: u64) {
        if n > 0 {
            *self.fired.entry(kind.to_string()).or_insert(0) += n;
        }
    }
    pub fn probe(&mut self, name: &str, n: u64) {
        if n > 0 {
            *self.probes.entry(name.to_string()).or_insert(0) += n;
        }
    }
    pub fn metric(&mut self, name: &str, n: u64) {
        *self.metrics.entry(name.to_string()).or_insert(0) += n;
    }
    /// Folds the statistics of a source or sink into the run.
    pub fn absorb(&mut self, actor: &str, st: &IoStats) {
        self.steps += st.calls + st.seeks + st.flushes;
        for (k, v) in &st.fired {
            *self.fired.entry(k.clone()).or_insert(0) += v;
        }
        self.digest.str(actor);
        self.digest.u64(st.digest.0);
        self.digest.u64(st.calls);
        self.digest.u64(st.bytes);
        if self.keep_log {
            for l in st.log.iter().take(24) {
                if self.log.len() < 200 {
                    self.log.push(format!("{actor}: {l}"));
                }
            }
        }
    }
    pub fn finish(self, violation: Option<Violation>) -> RunResult {
        let mut d = self.digest;
        if let Some(v) = &violation {
            d.str(&v.signature());
        }
        RunResult {
            digest: d.0,
            nontrivial: self.nontrivial,
            steps: self.steps,
            fired: self.fired,
            probes: self.probes,
            violation,
            sched_hash: self.sched_hash,
            log: self.log,
            metrics: self.metrics,
            evals: self.evals.max(1),
            distinct_sub: self.distinct_sub,
            pin: self.pin,
        }
    }
}

thread_local! {
    static LAST_PANIC: RefCell<Option<(String, String)>> = const { RefCell::new(None) };
}

/// Installs a panic hook that records location and message instead of printing.
pub fn install_panic_hook() {
    panic::set_hook(Box::new(|info| {
        let loc = info.location().map(|l| format!("{}:{}", l.file(), l.line())).unwrap_or_else(|| "?".into());
        let msg = if let Some(s) = info.payload().downcast_ref::<&str>() {
            s.to_string()
        } else if let Some(s) = info.payload().downcast_ref::<String>() {
            s.clone()
        } else {
            "<non-string panic>".into()
        };
        LAST_PANIC.with(|p| {
            let mut p = p.borrow_mut();
            // keep the first panic of a run (a second one is usually a consequence)
            if p.is_none() {
                *p = Some((loc, msg));
            }
        });
        if std::env::var_os("VERIF_SHOW_PANICS").is_some() {
            eprintln!("panic: {info}");
        }
    }));
}

pub fn take_panic() -> Option<(String, String)> {
    LAST_PANIC.with(|p| p.borrow_mut().take())
}

/// Strips the path prefix so that sites are stable ("src/lz/lz_encoder.rs:346").
pub fn normalise_site(loc: &str) -> String {
    if let Some(i) = loc.find("/repo/") {
        return loc[i + 6..].to_string();
    }
    if let Some(i) = loc.find("/rustc/") {
        // std location: keep the tail after library/
        if let Some(j) = loc[i..].find("library/") {
            return format!("std:{}", &loc[i + j + 8..]);
        }
    }
    loc.to_string()
}

/// Classifies a panic message.
pub fn classify_panic(component: &str, loc: &str, msg: &str) -> Violation {
    let site = normalise_site(loc);
    let class = if msg.starts_with("VERIF-OOB") {
        "oob"
    } else if msg.starts_with("deadlock") {
        "deadlock"
    } else if msg.starts_with("exceeded max_steps") {
        "livelock"
    } else {
        "panic"
    };
    let short: String = msg.chars().take(160).collect();
    Violation::new(class, component, site, short)
}

/// Runs `f`, converting a panic into `Err((location, message))`.
pub fn guarded<T>(f: impl FnOnce() -> T) -> Result<T, (String, String)> {
    let _ = take_panic();
    match panic::catch_unwind(AssertUnwindSafe(f)) {
        Ok(v) => Ok(v),
        Err(_) => Err(take_panic().unwrap_or_else(|| ("?".into(), "panic without hook record".into()))),
    }
}
