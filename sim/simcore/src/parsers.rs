//! The harness's own small parsers for the four containers, written from the format
//! specifications (xz-file-format-1.1.0, the lzip manual, the LZMA2 description in the XZ spec and
//! the .lzma "alone" header), not from the library's sources. They give field maps for
//! structure-aware faults and independent views for the size/count oracles.

use serde::Serialize;

// ---------------------------------------------------------------------------------------------
// checksums
// ---------------------------------------------------------------------------------------------

pub fn crc32(data: &[u8]) -> u32 {
    static TABLE: std::sync::OnceLock<[u32; 256]> = std::sync::OnceLock::new();
    let t = TABLE.get_or_init(|| {
        let mut t = [0u32; 256];
        for (i, e) in t.iter_mut().enumerate() {
            let mut c = i as u32;
            for _ in 0..8 {
                c = if c & 1 != 0 { 0xEDB88320 ^ (c >> 1) } else { c >> 1 };
            }
            *e = c;
        }
        t
    });
    let mut c = !0u32;
    for &b in data {
        c = t[((c ^ b as u32) & 0xFF) as usize] ^ (c >> 8);
    }
    !c
}

pub fn crc64(data: &[u8]) -> u64 {
    static TABLE: std::sync::OnceLock<[u64; 256]> = std::sync::OnceLock::new();
    let t = TABLE.get_or_init(|| {
        let mut t = [0u64; 256];
        for (i, e) in t.iter_mut().enumerate() {
            let mut c = i as u64;
            for _ in 0..8 {
                c = if c & 1 != 0 { 0xC96C5795D7870F42 ^ (c >> 1) } else { c >> 1 };
            }
            *e = c;
        }
        t
    });
    let mut c = !0u64;
    for &b in data {
        c = t[((c ^ b as u64) & 0xFF) as usize] ^ (c >> 8);
    }
    !c
}

pub fn sha256(data: &[u8]) -> [u8; 32] {
    const K: [u32; 64] = [
        0x428a2f98, 0x71374491, 0xb5c0fbcf, 0xe9b5dba5, 0x3956c25b, 0x59f111f1, 0x923f82a4, 0xab1c5ed5, 0xd807aa98, 0x12835b01, 0x243185be, 0x550c7dc3, 0x72be5d74, 0x80deb1fe, 0x9bdc06a7, 0xc19bf174, 0xe49b69c1, 0xefbe4786,
        0x0fc19dc6, 0x240ca1cc, 0x2de92c6f, 0x4a7484aa, 0x5cb0a9dc, 0x76f988da, 0x983e5152, 0xa831c66d, 0xb00327c8, 0xbf597fc7, 0xc6e00bf3, 0xd5a79147, 0x06ca6351, 0x14292967, 0x27b70a85, 0x2e1b2138, 0x4d2c6dfc, 0x53380d13,
        0x650a7354, 0x766a0abb, 0x81c2c92e, 0x92722c85, 0xa2bfe8a1, 0xa81a664b, 0xc24b8b70, 0xc76c51a3, 0xd192e819, 0xd6990624, 0xf40e3585, 0x106aa070, 0x19a4c116, 0x1e376c08, 0x2748774c, 0x34b0bcb5, 0x391c0cb3, 0x4ed8aa4a,
        0x5b9cca4f, 0x682e6ff3, 0x748f82ee, 0x78a5636f, 0x84c87814, 0x8cc70208, 0x90befffa, 0xa4506ceb, 0xbef9a3f7, 0xc67178f2,
    ];
    let mut h: [u32; 8] = [0x6a09e667, 0xbb67ae85, 0x3c6ef372, 0xa54ff53a, 0x510e527f, 0x9b05688c, 0x1f83d9ab, 0x5be0cd19];
    let mut msg = data.to_vec();
    let bitlen = (data.len() as u64) * 8;
    msg.push(0x80);
    while msg.len() % 64 != 56 {
        msg.push(0);
    }
    msg.extend_from_slice(&bitlen.to_be_bytes());
    for block in msg.chunks(64) {
        let mut w = [0u32; 64];
        for i in 0..16 {
            w[i] = u32::from_be_bytes([block[4 * i], block[4 * i + 1], block[4 * i + 2], block[4 * i + 3]]);
        }
        for i in 16..64 {
            let s0 = w[i - 15].rotate_right(7) ^ w[i - 15].rotate_right(18) ^ (w[i - 15] >> 3);
            let s1 = w[i - 2].rotate_right(17) ^ w[i - 2].rotate_right(19) ^ (w[i - 2] >> 10);
            w[i] = w[i - 16].wrapping_add(s0).wrapping_add(w[i - 7]).wrapping_add(s1);
        }
        let mut v = h;
        for i in 0..64 {
            let s1 = v[4].rotate_right(6) ^ v[4].rotate_right(11) ^ v[4].rotate_right(25);
            let ch = (v[4] & v[5]) ^ (!v[4] & v[6]);
            let t1 = v[7].wrapping_add(s1).wrapping_add(ch).wrapping_add(K[i]).wrapping_add(w[i]);
            let s0 = v[0].rotate_right(2) ^ v[0].rotate_right(13) ^ v[0].rotate_right(22);
            let maj = (v[0] & v[1]) ^ (v[0] & v[2]) ^ (v[1] & v[2]);
            let t2 = s0.wrapping_add(maj);
            v[7] = v[6];
            v[6] = v[5];
            v[5] = v[4];
            v[4] = v[3].wrapping_add(t1);
            v[3] = v[2];
            v[2] = v[1];
            v[1] = v[0];
            v[0] = t1.wrapping_add(t2);
        }
        for i in 0..8 {
            h[i] = h[i].wrapping_add(v[i]);
        }
    }
    let mut out = [0u8; 32];
    for i in 0..8 {
        out[4 * i..4 * i + 4].copy_from_slice(&h[i].to_be_bytes());
    }
    out
}

// ---------------------------------------------------------------------------------------------
// LZIP
// ---------------------------------------------------------------------------------------------

#[derive(Debug, Clone, Serialize)]
pub struct LzipMember {
    pub start: usize,
    pub len: usize,
    pub dict_byte: u8,
    pub crc: u32,
    pub data_size: u64,
}

/// Members of a well-formed LZIP file, found by walking the trailers backwards.
pub fn lzip_members(s: &[u8]) -> Option<Vec<LzipMember>> {
    let mut out = Vec::new();
    let mut end = s.len();
    while end > 0 {
        if end < 26 {
            return None;
        }
        let t = &s[end - 20..end];
        let crc = u32::from_le_bytes(t[0..4].try_into().unwrap());
        let data_size = u64::from_le_bytes(t[4..12].try_into().unwrap());
        let member_size = u64::from_le_bytes(t[12..20].try_into().unwrap()) as usize;
        if member_size < 26 || member_size > end {
            return None;
        }
        let start = end - member_size;
        if &s[start..start + 4] != b"LZIP" || s[start + 4] != 1 {
            return None;
        }
        out.push(LzipMember { start, len: member_size, dict_byte: s[start + 5], crc, data_size });
        end = start;
    }
    out.reverse();
    Some(out)
}

pub fn lzip_dict_size(b: u8) -> Option<u32> {
    let log = (b & 0x1F) as u32;
    let frac = (b >> 5) as u32;
    if !(12..=29).contains(&log) {
        return None;
    }
    let base = 1u32 << log;
    Some(base - (base / 16) * frac)
}

/// Wraps a raw LZMA stream (lc3 lp0 pb2, end marker) into one LZIP member.
pub fn lzip_wrap(dict_byte: u8, lzma_stream: &[u8], data: &[u8]) -> Vec<u8> {
    let mut m = Vec::with_capacity(lzma_stream.len() + 26);
    m.extend_from_slice(b"LZIP");
    m.push(1);
    m.push(dict_byte);
    m.extend_from_slice(lzma_stream);
    m.extend_from_slice(&crc32(data).to_le_bytes());
    m.extend_from_slice(&(data.len() as u64).to_le_bytes());
    m.extend_from_slice(&((lzma_stream.len() + 26) as u64).to_le_bytes());
    m
}

// ---------------------------------------------------------------------------------------------
// XZ
// ---------------------------------------------------------------------------------------------

pub fn read_vli(s: &[u8], pos: &mut usize) -> Option<u64> {
    let mut v = 0u64;
    for i in 0..9 {
        let b = *s.get(*pos)?;
        *pos += 1;
        v |= ((b & 0x7F) as u64) << (7 * i);
        if b & 0x80 == 0 {
            if b == 0 && i > 0 {
                return None;
            }
            return Some(v);
        }
    }
    None
}

pub fn write_vli(mut v: u64, out: &mut Vec<u8>) {
    while v >= 0x80 {
        out.push((v as u8) | 0x80);
        v >>= 7;
    }
    out.push(v as u8);
}

#[derive(Debug, Clone, Serialize)]
pub struct XzFilter {
    pub id: u64,
    pub props: Vec<u8>,
}

#[derive(Debug, Clone, Serialize)]
pub struct XzBlock {
    /// offset of the block header size byte
    pub start: usize,
    pub header_len: usize,
    pub flags: u8,
    pub compressed_size_field: Option<u64>,
    pub uncompressed_size_field: Option<u64>,
    pub filters: Vec<XzFilter>,
    /// offset and length of the compressed data
    pub data_start: usize,
    pub data_len: usize,
    pub padding: usize,
    pub check_start: usize,
    pub check_len: usize,
    /// from the index
    pub unpadded_size: u64,
    pub uncompressed_size: u64,
}

#[derive(Debug, Clone, Serialize)]
pub struct XzStream {
    pub start: usize,
    pub end: usize,
    pub check: u8,
    pub blocks: Vec<XzBlock>,
    pub index_start: usize,
    pub index_len: usize,
    pub record_count: u64,
    pub footer_start: usize,
}

pub fn xz_check_len(check: u8) -> usize {
    match check {
        0 => 0,
        1..=3 => 4,
        4..=6 => 8,
        7..=9 => 16,
        10..=12 => 32,
        _ => 64,
    }
}

/// Parses one well-formed XZ stream that occupies exactly `s[start..end]`.
pub fn xz_stream(s: &[u8], start: usize, end: usize) -> Result<XzStream, String> {
    let b = &s[..end];
    if end < start + 32 {
        return Err("too short".into());
    }
    if b[start..start + 6] != [0xFD, b'7', b'z', b'X', b'Z', 0] {
        return Err("bad magic".into());
    }
    let flags = [b[start + 6], b[start + 7]];
    if flags[0] != 0 || crc32(&flags) != u32::from_le_bytes(b[start + 8..start + 12].try_into().unwrap()) {
        return Err("bad stream header".into());
    }
    let check = flags[1];
    let footer_start = end - 12;
    if &b[end - 2..end] != b"YZ" {
        return Err("bad footer magic".into());
    }
    if crc32(&b[footer_start + 4..footer_start + 10]) != u32::from_le_bytes(b[footer_start..footer_start + 4].try_into().unwrap()) {
        return Err("bad footer crc".into());
    }
    if b[footer_start + 8..footer_start + 10] != flags {
        return Err("footer flags differ".into());
    }
    let backward = (u32::from_le_bytes(b[footer_start + 4..footer_start + 8].try_into().unwrap()) as usize + 1) * 4;
    if backward + 12 > footer_start - start {
        return Err("backward size too large".into());
    }
    let index_start = footer_start - backward;
    if b[index_start] != 0 {
        return Err("index indicator missing".into());
    }
    let mut p = index_start + 1;
    let count = read_vli(b, &mut p).ok_or("bad record count")?;
    let mut recs = Vec::new();
    for _ in 0..count {
        let u = read_vli(b, &mut p).ok_or("bad unpadded size")?;
        let v = read_vli(b, &mut p).ok_or("bad uncompressed size")?;
        if p > footer_start {
            return Err("index overruns".into());
        }
        recs.push((u, v));
    }
    while (p - index_start) % 4 != 0 {
        if b[p] != 0 {
            return Err("index padding".into());
        }
        p += 1;
    }
    if crc32(&b[index_start..p]) != u32::from_le_bytes(b[p..p + 4].try_into().map_err(|_| "short index")?) {
        return Err("index crc".into());
    }
    if p + 4 != footer_start {
        return Err("index length does not match backward size".into());
    }
    // blocks
    let mut pos = start + 12;
    let mut blocks = Vec::new();
    for (unpadded, uncomp) in recs {
        if pos >= index_start {
            return Err("block beyond index".into());
        }
        let hs = b[pos] as usize;
        if hs == 0 {
            return Err("index indicator where a block was expected".into());
        }
        let header_len = (hs + 1) * 4;
        if pos + header_len > index_start {
            return Err("block header overruns".into());
        }
        let h = &b[pos..pos + header_len];
        if crc32(&h[..header_len - 4]) != u32::from_le_bytes(h[header_len - 4..].try_into().unwrap()) {
            return Err("block header crc".into());
        }
        let bf = h[1];
        let mut q = 2usize;
        let csz = if bf & 0x40 != 0 { Some(read_vli(h, &mut q).ok_or("csize")?) } else { None };
        let usz = if bf & 0x80 != 0 { Some(read_vli(h, &mut q).ok_or("usize")?) } else { None };
        let nf = (bf & 3) as usize + 1;
        let mut filters = Vec::new();
        for _ in 0..nf {
            let id = read_vli(h, &mut q).ok_or("filter id")?;
            let pl = read_vli(h, &mut q).ok_or("props len")? as usize;
            if q + pl > header_len - 4 {
                return Err("filter props overrun".into());
            }
            filters.push(XzFilter { id, props: h[q..q + pl].to_vec() });
            q += pl;
        }
        let check_len = xz_check_len(check);
        let unp = unpadded as usize;
        if unp < header_len + check_len {
            return Err(format!("index unpadded size {unp} smaller than block header {header_len} + check {check_len}"));
        }
        let data_len = unp - header_len - check_len;
        let data_start = pos + header_len;
        let padding = (4 - (unp % 4)) % 4;
        let check_start = data_start + data_len + padding;
        if check_start + check_len > index_start {
            return Err("block overruns index".into());
        }
        if b[data_start + data_len..check_start].iter().any(|&x| x != 0) {
            return Err("block padding not zero".into());
        }
        blocks.push(XzBlock {
            start: pos,
            header_len,
            flags: bf,
            compressed_size_field: csz,
            uncompressed_size_field: usz,
            filters,
            data_start,
            data_len,
            padding,
            check_start,
            check_len,
            unpadded_size: unpadded,
            uncompressed_size: uncomp,
        });
        pos = check_start + check_len;
    }
    if pos != index_start {
        return Err(format!("blocks end at {pos}, index starts at {index_start}"));
    }
    Ok(XzStream { start, end, check, blocks, index_start, index_len: footer_start - index_start, record_count: count, footer_start })
}

/// Parses a file made of one or more streams with stream padding (walking backwards).
pub fn xz_file(s: &[u8]) -> Result<Vec<XzStream>, String> {
    let mut out = Vec::new();
    let mut end = s.len();
    loop {
        while end >= 4 && s[end - 4..end] == [0, 0, 0, 0] {
            end -= 4;
        }
        if end == 0 {
            break;
        }
        if end < 32 {
            return Err("trailing bytes".into());
        }
        // footer -> index -> blocks: total size = 12 + sum(roundup4(unpadded)) + index + 12
        let footer_start = end - 12;
        let backward = (u32::from_le_bytes(s[footer_start + 4..footer_start + 8].try_into().unwrap()) as usize + 1) * 4;
        if backward + 24 > end {
            return Err("backward size".into());
        }
        let index_start = footer_start - backward;
        let mut p = index_start + 1;
        let count = read_vli(s, &mut p).ok_or("count")?;
        let mut total = 0usize;
        for _ in 0..count {
            let u = read_vli(s, &mut p).ok_or("unpadded")? as usize;
            let _ = read_vli(s, &mut p).ok_or("uncompressed")?;
            total += (u + 3) & !3;
        }
        if total + 12 > index_start {
            return Err("blocks larger than file".into());
        }
        let start = index_start - total - 12;
        out.push(xz_stream(s, start, end)?);
        end = start;
    }
    out.reverse();
    Ok(out)
}

/// Recomputes the CRC32 of the block header starting at `start`.
pub fn xz_fix_block_header_crc(s: &mut [u8], start: usize) {
    let header_len = (s[start] as usize + 1) * 4;
    if start + header_len <= s.len() {
        let c = crc32(&s[start..start + header_len - 4]);
        s[start + header_len - 4..start + header_len].copy_from_slice(&c.to_le_bytes());
    }
}

pub fn xz_fix_index_crc(s: &mut [u8], index_start: usize, index_len: usize) {
    if index_len >= 8 && index_start + index_len <= s.len() {
        let c = crc32(&s[index_start..index_start + index_len - 4]);
        s[index_start + index_len - 4..index_start + index_len].copy_from_slice(&c.to_le_bytes());
    }
}

pub fn xz_fix_footer_crc(s: &mut [u8], footer_start: usize) {
    if footer_start + 12 <= s.len() {
        let c = crc32(&s[footer_start + 4..footer_start + 10]);
        s[footer_start..footer_start + 4].copy_from_slice(&c.to_le_bytes());
    }
}

pub fn xz_fix_header_crc(s: &mut [u8], start: usize) {
    if start + 12 <= s.len() {
        let c = crc32(&s[start + 6..start + 8]);
        s[start + 8..start + 12].copy_from_slice(&c.to_le_bytes());
    }
}

pub fn xz_check_value(check: u8, data: &[u8]) -> Vec<u8> {
    match check {
        1 => crc32(data).to_le_bytes().to_vec(),
        4 => crc64(data).to_le_bytes().to_vec(),
        10 => sha256(data).to_vec(),
        _ => vec![0; xz_check_len(check)],
    }
}

// ---------------------------------------------------------------------------------------------
// LZMA2 chunk walker
// ---------------------------------------------------------------------------------------------

#[derive(Debug, Clone, Serialize)]
pub struct Lzma2Chunk {
    pub start: usize,
    pub control: u8,
    pub header_len: usize,
    pub unpacked: usize,
    pub packed: usize,
    pub props: Option<u8>,
}

impl Lzma2Chunk {
    pub fn dict_reset(&self) -> bool {
        self.control == 1 || self.control >= 0xE0
    }
    pub fn is_lzma(&self) -> bool {
        self.control >= 0x80
    }
}

/// Walks an LZMA2 stream. Returns the chunks and the offset just after the 0x00 terminator
/// (None if the terminator is missing).
pub fn lzma2_chunks(s: &[u8]) -> Result<(Vec<Lzma2Chunk>, Option<usize>), String> {
    let mut out = Vec::new();
    let mut p = 0usize;
    loop {
        let Some(&c) = s.get(p) else { return Ok((out, None)) };
        if c == 0 {
            return Ok((out, Some(p + 1)));
        }
        if c >= 0x80 {
            let hl = if c >= 0xC0 { 6 } else { 5 };
            if p + hl > s.len() {
                return Err(format!("chunk header at {p} truncated"));
            }
            let unpacked = (((c & 0x1F) as usize) << 16) + ((s[p + 1] as usize) << 8) + s[p + 2] as usize + 1;
            let packed = ((s[p + 3] as usize) << 8) + s[p + 4] as usize + 1;
            let props = if c >= 0xC0 { Some(s[p + 5]) } else { None };
            if p + hl + packed > s.len() {
                return Err(format!("chunk at {p} overruns"));
            }
            out.push(Lzma2Chunk { start: p, control: c, header_len: hl, unpacked, packed, props });
            p += hl + packed;
        } else if c <= 2 {
            if p + 3 > s.len() {
                return Err(format!("chunk header at {p} truncated"));
            }
            let n = ((s[p + 1] as usize) << 8) + s[p + 2] as usize + 1;
            if p + 3 + n > s.len() {
                return Err(format!("chunk at {p} overruns"));
            }
            out.push(Lzma2Chunk { start: p, control: c, header_len: 3, unpacked: n, packed: n, props: None });
            p += 3 + n;
        } else {
            return Err(format!("reserved control byte {c:#x} at {p}"));
        }
    }
}

/// Structural rules of a stream produced by a conforming encoder.
pub fn lzma2_wellformed(chunks: &[Lzma2Chunk], has_preset: bool) -> Result<(), String> {
    let mut need_dict_reset = !has_preset;
    let mut need_props = true;
    for c in chunks {
        if c.dict_reset() {
            need_dict_reset = false;
            if c.is_lzma() {
                need_props = true;
            }
        } else if need_dict_reset {
            return Err(format!("chunk at {} ({:#x}) before any dictionary reset", c.start, c.control));
        }
        if c.is_lzma() {
            if c.unpacked > (1 << 21) || c.packed > (1 << 16) {
                return Err("chunk size limits".into());
            }
            if c.control >= 0xC0 {
                need_props = false;
                let p = c.props.unwrap();
                if p > 224 {
                    return Err("props byte".into());
                }
                let lclp = p % 45;
                if lclp / 9 + lclp % 9 > 4 {
                    return Err("lc+lp > 4".into());
                }
            } else if need_props {
                return Err(format!("LZMA chunk at {} without properties", c.start));
            }
        } else if c.unpacked > (1 << 16) {
            return Err("uncompressed chunk too large".into());
        }
    }
    Ok(())
}

/// Number of independent units (runs of chunks starting at a dictionary reset).
pub fn lzma2_independent_units(chunks: &[Lzma2Chunk]) -> usize {
    chunks.iter().enumerate().filter(|(i, c)| *i == 0 || c.dict_reset()).count()
}

// ---------------------------------------------------------------------------------------------
// .lzma header
// ---------------------------------------------------------------------------------------------

#[derive(Debug, Clone, Serialize)]
pub struct LzmaHeader {
    pub props: u8,
    pub dict: u32,
    pub size: u64,
}

pub fn lzma_header(s: &[u8]) -> Option<LzmaHeader> {
    if s.len() < 13 {
        return None;
    }
    Some(LzmaHeader { props: s[0], dict: u32::from_le_bytes(s[1..5].try_into().unwrap()), size: u64::from_le_bytes(s[5..13].try_into().unwrap()) })
}

#[cfg(test)]
mod tests {
    use super::*;
    #[test]
    fn checksums() {
        assert_eq!(crc32(b"123456789"), 0xCBF43926);
        assert_eq!(crc64(b"123456789"), 0x995DC9BBDF1939FA);
        assert_eq!(sha256(b"abc")[..4], [0xba, 0x78, 0x16, 0xbf]);
    }
}
