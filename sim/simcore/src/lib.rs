//! Shared core of the lzma-rust2 deterministic simulator: PRNG, case description, I/O seam,
//! allocator seam, container parsers, storage faults, orchestrator and minimiser.

pub mod alloc;
pub mod case;
pub mod io;
pub mod minimise;
pub mod orch;
pub mod parsers;
pub mod rng;
pub mod run;
pub mod storage;
