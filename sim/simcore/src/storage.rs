//! Storage faults: what can happen to bytes between a writer and a later reader.

use crate::case::StFault;
use crate::rng::Rng;

/// Applies the byte-level faults in order. Returns how many actually changed something.
pub fn apply(bytes: &mut Vec<u8>, faults: &[StFault]) -> u64 {
    let mut applied = 0;
    for f in faults {
        let n = bytes.len();
        match f.kind.as_str() {
            "bitflip" if n > 0 => {
                let p = (f.a as usize) % n;
                bytes[p] ^= 1 << (f.b & 7);
                applied += 1;
            }
            "subst" if n > 0 => {
                let p = (f.a as usize) % n;
                if bytes[p] != f.b as u8 {
                    bytes[p] = f.b as u8;
                    applied += 1;
                }
            }
            "zero" if n > 0 => {
                let s = (f.a as usize) % n;
                let e = (s + (f.b as usize).max(1)).min(n);
                if bytes[s..e].iter().any(|&x| x != 0) {
                    bytes[s..e].fill(0);
                    applied += 1;
                }
            }
            "delete" if n > 0 => {
                let s = (f.a as usize) % n;
                let e = (s + (f.b as usize).max(1)).min(n);
                bytes.drain(s..e);
                applied += 1;
            }
            "insert" => {
                let p = if n == 0 { 0 } else { (f.a as usize) % (n + 1) };
                let mut ins = vec![0u8; (f.b as usize).max(1)];
                Rng::new(f.c).fill(&mut ins);
                let tail = bytes.split_off(p);
                bytes.extend_from_slice(&ins);
                bytes.extend_from_slice(&tail);
                applied += 1;
            }
            "dup" if n > 0 => {
                let s = (f.a as usize) % n;
                let e = (s + (f.b as usize).max(1)).min(n);
                let piece = bytes[s..e].to_vec();
                let tail = bytes.split_off(e);
                bytes.extend_from_slice(&piece);
                bytes.extend_from_slice(&tail);
                applied += 1;
            }
            "swap" if n > 1 => {
                let len = (f.c as usize).max(1);
                let a = (f.a as usize) % n;
                let b = (f.b as usize) % n;
                let (a, b) = (a.min(b), a.max(b));
                let len = len.min(b - a).min(n - b);
                if len > 0 && bytes[a..a + len] != bytes[b..b + len] {
                    for i in 0..len {
                        bytes.swap(a + i, b + i);
                    }
                    applied += 1;
                }
            }
            "trunc" => {
                let t = (f.a as usize).min(n);
                if t < n {
                    bytes.truncate(t);
                    applied += 1;
                }
            }
            _ => {}
        }
    }
    applied
}

pub fn random_fault(rng: &mut Rng, len: usize) -> StFault {
    let len = len.max(1) as u64;
    let kind = *rng.pick(&["bitflip", "bitflip", "subst", "subst", "zero", "delete", "insert", "dup", "swap", "trunc"]);
    let mut f = StFault { kind: kind.into(), ..Default::default() };
    // bias positions to the ends (headers and trailers live there)
    let pos = |rng: &mut Rng| match rng.below(4) {
        0 => rng.below(len.min(32)),
        1 => len - 1 - rng.below(len.min(32)),
        _ => rng.below(len),
    };
    match kind {
        "bitflip" => {
            f.a = pos(rng);
            f.b = rng.below(8);
        }
        "subst" => {
            f.a = pos(rng);
            let any = rng.below(256);
            f.b = *rng.pick(&[0u64, 1, 0xFF, 0x80, any]);
        }
        "zero" | "delete" | "dup" => {
            f.a = pos(rng);
            f.b = *rng.pick(&[1u64, 2, 4, 8, 64, 512, 4096]);
        }
        "insert" => {
            f.a = pos(rng);
            f.b = *rng.pick(&[1u64, 2, 4, 8, 64]);
            f.c = rng.next_u64();
        }
        "swap" => {
            f.a = pos(rng);
            f.b = pos(rng);
            f.c = *rng.pick(&[1u64, 4, 16, 512]);
        }
        _ => f.a = rng.below(len),
    }
    f
}
