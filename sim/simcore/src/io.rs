//! The I/O seam: `SimSource` (Read + Seek) and `SimSink` (Write) with fault plans.

use crate::case::{IoFault, IoPolicy};
use crate::rng::{Digest, Rng};
use std::collections::BTreeMap;
use std::io::{self, ErrorKind, Read, Seek, SeekFrom, Write};
use std::sync::{Arc, Mutex};

pub const ERRKINDS: &[ErrorKind] = &[
    ErrorKind::Other,
    ErrorKind::BrokenPipe,
    ErrorKind::ConnectionReset,
    ErrorKind::TimedOut,
    ErrorKind::PermissionDenied,
    ErrorKind::WouldBlock,
];

pub fn errkind(code: u64) -> ErrorKind {
    ERRKINDS[(code as usize) % ERRKINDS.len()]
}

pub const INJECTED_MSG: &str = "simulated I/O fault";

#[derive(Default, Debug, Clone)]
pub struct IoStats {
    pub calls: u64,
    pub bytes: u64,
    pub seeks: u64,
    pub flushes: u64,
    pub fired: BTreeMap<String, u64>,
    pub digest: Digest,
    /// kind of the first destructive fault that fired (errkind code), if any
    pub first_error: Option<ErrorKind>,
    /// number of consecutive calls answered Ok(0)/error after the end (for spin detection)
    pub calls_after_end: u64,
    pub log: Vec<String>,
    pub keep_log: bool,
}

impl IoStats {
    fn fire(&mut self, kind: &str) {
        *self.fired.entry(kind.to_string()).or_insert(0) += 1;
    }
    fn ev(&mut self, actor: &str, op: &str, req: usize, ret: i64) {
        self.digest.str(op);
        self.digest.u64(req as u64);
        self.digest.u64(ret as u64);
        if self.keep_log && self.log.len() < 64 {
            self.log.push(format!("{actor}#{} {op} req={req} ret={ret}", self.calls));
        }
    }
}

pub type Shared<T> = Arc<Mutex<T>>;

fn faults_at(faults: &[IoFault], at: u64, kinds: &[&str]) -> Option<IoFault> {
    faults.iter().find(|f| f.at == at && kinds.contains(&f.kind.as_str())).cloned()
}

pub struct SimSource {
    data: Arc<Vec<u8>>,
    pos: usize,
    policy: IoPolicy,
    prng: Rng,
    faults: Vec<IoFault>,
    dead: Option<ErrorKind>,
    eof_forced: bool,
    last_intr: bool,
    pub stats: Shared<IoStats>,
    /// hard cap on calls: beyond it every call fails (guards against spinning callers)
    pub call_cap: u64,
}

impl SimSource {
    pub fn new(data: Vec<u8>, policy: &IoPolicy, faults: &[IoFault]) -> Self {
        Self::from_arc(Arc::new(data), policy, faults)
    }

    pub fn from_arc(data: Arc<Vec<u8>>, policy: &IoPolicy, faults: &[IoFault]) -> Self {
        SimSource {
            data,
            pos: 0,
            policy: policy.clone(),
            prng: Rng::new(policy.seed),
            faults: faults.to_vec(),
            dead: None,
            eof_forced: false,
            last_intr: false,
            stats: Arc::new(Mutex::new(IoStats::default())),
            call_cap: u64::MAX,
        }
    }

    pub fn plain(data: Vec<u8>) -> Self {
        Self::new(data, &IoPolicy::default(), &[])
    }

    pub fn stats(&self) -> Shared<IoStats> {
        self.stats.clone()
    }

    pub fn position(&self) -> usize {
        self.pos
    }

    pub fn remaining(&self) -> &[u8] {
        &self.data[self.pos.min(self.data.len())..]
    }
}

impl Read for SimSource {
    fn read(&mut self, buf: &mut [u8]) -> io::Result<usize> {
        let mut st = self.stats.lock().unwrap();
        let idx = st.calls;
        st.calls += 1;
        if idx >= self.call_cap {
            st.fire("call_cap");
            return Err(io::Error::new(ErrorKind::Other, "simulated source call cap reached"));
        }
        if let Some(k) = self.dead {
            st.ev("src", "read_dead", buf.len(), -1);
            return Err(io::Error::new(k, INJECTED_MSG));
        }
        if let Some(f) = faults_at(&self.faults, idx, &["err_p", "err_t", "intr", "short", "eof"]) {
            match f.kind.as_str() {
                "err_p" => {
                    let k = errkind(f.arg);
                    self.dead = Some(k);
                    st.fire("read_error_persistent");
                    st.first_error.get_or_insert(k);
                    st.ev("src", "read_err_p", buf.len(), -1);
                    return Err(io::Error::new(k, INJECTED_MSG));
                }
                "err_t" => {
                    let k = errkind(f.arg);
                    st.fire("read_error_transient");
                    st.first_error.get_or_insert(k);
                    st.ev("src", "read_err_t", buf.len(), -1);
                    return Err(io::Error::new(k, INJECTED_MSG));
                }
                "intr" => {
                    st.fire("read_interrupted");
                    st.ev("src", "read_intr", buf.len(), -1);
                    return Err(io::Error::new(ErrorKind::Interrupted, "simulated EINTR"));
                }
                "eof" => {
                    self.eof_forced = true;
                    st.fire("read_eof_forced");
                }
                "short" => {
                    let avail = self.data.len().saturating_sub(self.pos);
                    let n = buf.len().min(avail).min((f.arg.max(1)) as usize);
                    buf[..n].copy_from_slice(&self.data[self.pos..self.pos + n]);
                    self.pos += n;
                    st.bytes += n as u64;
                    st.fire("read_short");
                    st.ev("src", "read_short", buf.len(), n as i64);
                    return Ok(n);
                }
                _ => {}
            }
        }
        if self.eof_forced {
            st.ev("src", "read_eof", buf.len(), 0);
            return Ok(0);
        }
        let avail = self.data.len().saturating_sub(self.pos);
        let mut n = buf.len().min(avail);
        if self.policy.intr_pct > 0 && !self.last_intr && self.prng.pct(self.policy.intr_pct as u64) {
            self.last_intr = true;
            st.fire("read_interrupted");
            st.ev("src", "read_intr", buf.len(), -1);
            return Err(io::Error::new(ErrorKind::Interrupted, "simulated EINTR"));
        }
        self.last_intr = false;
        if self.policy.short_pct > 0 && n > 1 && self.prng.pct(self.policy.short_pct as u64) {
            let cap = self.prng.range(1, self.policy.max_chunk.max(1) as u64) as usize;
            if cap < n {
                n = cap;
                st.fire("read_short");
            }
        }
        buf[..n].copy_from_slice(&self.data[self.pos..self.pos + n]);
        self.pos += n;
        st.bytes += n as u64;
        if n == 0 && !buf.is_empty() {
            st.calls_after_end += 1;
        }
        st.ev("src", "read", buf.len(), n as i64);
        Ok(n)
    }
}

impl Seek for SimSource {
    fn seek(&mut self, pos: SeekFrom) -> io::Result<u64> {
        let mut st = self.stats.lock().unwrap();
        let idx = st.seeks;
        st.seeks += 1;
        if idx >= self.call_cap {
            st.fire("call_cap");
            return Err(io::Error::new(ErrorKind::Other, "simulated source call cap reached"));
        }
        if let Some(k) = self.dead {
            return Err(io::Error::new(k, INJECTED_MSG));
        }
        if let Some(f) = self.faults.iter().find(|f| f.kind == "seek_err" && f.at == idx) {
            let k = errkind(f.arg);
            st.fire("seek_error");
            st.first_error.get_or_insert(k);
            st.ev("src", "seek_err", 0, -1);
            return Err(io::Error::new(k, INJECTED_MSG));
        }
        let len = self.data.len() as i64;
        let new = match pos {
            SeekFrom::Start(p) => p as i64,
            SeekFrom::End(d) => len + d,
            SeekFrom::Current(d) => self.pos as i64 + d,
        };
        if new < 0 {
            return Err(io::Error::new(ErrorKind::InvalidInput, "seek before start"));
        }
        self.pos = new as usize;
        st.ev("src", "seek", 0, new);
        Ok(new as u64)
    }
}

pub struct SimSink {
    pub out: Shared<Vec<u8>>,
    policy: IoPolicy,
    prng: Rng,
    faults: Vec<IoFault>,
    dead: Option<ErrorKind>,
    last_intr: bool,
    pub stats: Shared<IoStats>,
}

impl SimSink {
    pub fn new(policy: &IoPolicy, faults: &[IoFault]) -> Self {
        SimSink {
            out: Arc::new(Mutex::new(Vec::new())),
            policy: policy.clone(),
            prng: Rng::new(policy.seed ^ 0x51),
            faults: faults.to_vec(),
            dead: None,
            last_intr: false,
            stats: Arc::new(Mutex::new(IoStats::default())),
        }
    }

    pub fn plain() -> Self {
        Self::new(&IoPolicy::default(), &[])
    }

    /// Pre-sizes the output buffer (so that it does not grow while a guard-page run is active).
    pub fn reserve(self, n: usize) -> Self {
        self.out.lock().unwrap().reserve(n);
        self
    }

    pub fn handle(&self) -> (Shared<Vec<u8>>, Shared<IoStats>) {
        (self.out.clone(), self.stats.clone())
    }

    pub fn bytes(&self) -> Vec<u8> {
        self.out.lock().unwrap().clone()
    }
}

impl Write for SimSink {
    fn write(&mut self, buf: &[u8]) -> io::Result<usize> {
        let mut st = self.stats.lock().unwrap();
        let idx = st.calls;
        st.calls += 1;
        if let Some(k) = self.dead {
            st.ev("sink", "write_dead", buf.len(), -1);
            return Err(io::Error::new(k, INJECTED_MSG));
        }
        if let Some(f) = faults_at(&self.faults, idx, &["err_p", "err_t", "intr", "short", "zero"]) {
            match f.kind.as_str() {
                "err_p" => {
                    let k = errkind(f.arg);
                    self.dead = Some(k);
                    st.fire("write_error_persistent");
                    st.first_error.get_or_insert(k);
                    st.ev("sink", "write_err_p", buf.len(), -1);
                    return Err(io::Error::new(k, INJECTED_MSG));
                }
                "err_t" => {
                    let k = errkind(f.arg);
                    st.fire("write_error_transient");
                    st.first_error.get_or_insert(k);
                    st.ev("sink", "write_err_t", buf.len(), -1);
                    return Err(io::Error::new(k, INJECTED_MSG));
                }
                "intr" => {
                    st.fire("write_interrupted");
                    st.ev("sink", "write_intr", buf.len(), -1);
                    return Err(io::Error::new(ErrorKind::Interrupted, "simulated EINTR"));
                }
                "zero" => {
                    st.fire("write_zero");
                    st.first_error.get_or_insert(ErrorKind::WriteZero);
                    st.ev("sink", "write_zero", buf.len(), 0);
                    return Ok(0);
                }
                "short" => {
                    let n = buf.len().min(f.arg.max(1) as usize);
                    self.out.lock().unwrap().extend_from_slice(&buf[..n]);
                    st.bytes += n as u64;
                    st.fire("write_short");
                    st.ev("sink", "write_short", buf.len(), n as i64);
                    return Ok(n);
                }
                _ => {}
            }
        }
        let mut n = buf.len();
        if self.policy.intr_pct > 0 && !self.last_intr && self.prng.pct(self.policy.intr_pct as u64) {
            self.last_intr = true;
            st.fire("write_interrupted");
            st.ev("sink", "write_intr", buf.len(), -1);
            return Err(io::Error::new(ErrorKind::Interrupted, "simulated EINTR"));
        }
        self.last_intr = false;
        if self.policy.short_pct > 0 && n > 1 && self.prng.pct(self.policy.short_pct as u64) {
            let cap = self.prng.range(1, self.policy.max_chunk.max(1) as u64) as usize;
            if cap < n {
                n = cap;
                st.fire("write_short");
            }
        }
        self.out.lock().unwrap().extend_from_slice(&buf[..n]);
        st.bytes += n as u64;
        st.ev("sink", "write", buf.len(), n as i64);
        Ok(n)
    }

    fn flush(&mut self) -> io::Result<()> {
        let mut st = self.stats.lock().unwrap();
        let idx = st.flushes;
        st.flushes += 1;
        if let Some(k) = self.dead {
            return Err(io::Error::new(k, INJECTED_MSG));
        }
        if let Some(f) = self.faults.iter().find(|f| f.kind == "flush_err" && f.at == idx) {
            let k = errkind(f.arg);
            st.fire("flush_error");
            st.first_error.get_or_insert(k);
            st.ev("sink", "flush_err", 0, -1);
            return Err(io::Error::new(k, INJECTED_MSG));
        }
        st.ev("sink", "flush", 0, 0);
        Ok(())
    }
}

/// How a read loop ended.
#[derive(Debug)]
pub enum ReadEnd {
    Eof,
    Err(io::Error),
    /// output cap exceeded (unbounded output)
    Overflow,
    /// too many consecutive Interrupted results (a sticky Interrupted)
    Spin,
}

/// Reads `r` to the end with the given destination sizes (cycled). `Interrupted` is retried like
/// `read_to_end` does. Zero-length destinations are issued as real zero-length reads and must
/// return Ok(0) without ending the stream. Stops with `Overflow` once more than `cap` bytes came.
pub fn read_all<R: Read + ?Sized>(r: &mut R, sizes: &[usize], cap: usize, out: &mut Vec<u8>) -> ReadEnd {
    let maxsz = sizes.iter().copied().max().unwrap_or(65536).max(1);
    let mut buf = vec![0xEEu8; maxsz];
    let mut i = 0usize;
    let mut intr_run = 0u32;
    loop {
        let want = sizes[i % sizes.len()];
        i += 1;
        if want == 0 {
            match r.read(&mut buf[..0]) {
                Ok(_) => continue,
                Err(e) if e.kind() == ErrorKind::Interrupted => continue,
                Err(e) => return ReadEnd::Err(e),
            }
        }
        match r.read(&mut buf[..want]) {
            Ok(0) => return ReadEnd::Eof,
            Ok(n) => {
                intr_run = 0;
                if n > want {
                    return ReadEnd::Err(io::Error::new(ErrorKind::Other, "VERIF: read returned more than the buffer length"));
                }
                out.extend_from_slice(&buf[..n]);
                if out.len() > cap {
                    return ReadEnd::Overflow;
                }
            }
            Err(e) if e.kind() == ErrorKind::Interrupted => {
                intr_run += 1;
                if intr_run > 1000 {
                    return ReadEnd::Spin;
                }
            }
            Err(e) => return ReadEnd::Err(e),
        }
    }
}

/// `write_all` that retries `Interrupted` (as std's does) but reports how it ended.
pub fn write_all_retry<W: Write + ?Sized>(w: &mut W, mut buf: &[u8]) -> io::Result<()> {
    let mut intr = 0;
    while !buf.is_empty() {
        match w.write(buf) {
            Ok(0) => return Err(io::Error::new(ErrorKind::WriteZero, "writer returned Ok(0)")),
            Ok(n) => {
                if n > buf.len() {
                    return Err(io::Error::new(ErrorKind::Other, "VERIF: write returned more than the buffer length"));
                }
                buf = &buf[n..];
                intr = 0;
            }
            Err(e) if e.kind() == ErrorKind::Interrupted => {
                intr += 1;
                if intr > 1000 {
                    return Err(io::Error::new(ErrorKind::Other, "VERIF: sticky Interrupted from writer"));
                }
            }
            Err(e) => return Err(e),
        }
    }
    Ok(())
}

pub fn flush_retry<W: Write + ?Sized>(w: &mut W) -> io::Result<()> {
    let mut intr = 0;
    loop {
        match w.flush() {
            Err(e) if e.kind() == ErrorKind::Interrupted && intr < 1000 => intr += 1,
            r => return r,
        }
    }
}
