//! lzsim-xcfg: the same seed executed against four library configurations linked into one
//! process: default (std + optimization), std without optimization, no_std with and without
//! optimization. Determinism makes any difference attributable to the configuration.

use simcore::case::{biased_len, random_input, random_rbufs, Case, StFault, Violation};
use simcore::orch::{Engine, PropMeta};
use simcore::rng::Rng;
use simcore::run::{Ctx, RunResult};
use simcore::storage;

#[global_allocator]
static ALLOC: simcore::alloc::SimAlloc = simcore::alloc::SimAlloc;

#[path = "../../scen/optgen_x.rs"]
mod optgen;

macro_rules! std_instance {
    ($m:ident, $krate:ident) => {
        mod $m {
            use $krate as lz;
            mod lio {
                pub use std::io::{Read, Write};
                pub type Res<T> = std::io::Result<T>;
                pub fn class(e: &std::io::Error) -> u8 {
                    use std::io::ErrorKind::*;
                    match e.kind() {
                        UnexpectedEof => 1,
                        Interrupted => 2,
                        InvalidData => 3,
                        InvalidInput => 4,
                        OutOfMemory => 5,
                        Other => 6,
                        Unsupported => 7,
                        WriteZero => 8,
                        _ => 99,
                    }
                }
            }
            include!("../../scen/xcase.rs");
        }
    };
}

macro_rules! nostd_instance {
    ($m:ident, $krate:ident) => {
        mod $m {
            use $krate as lz;
            mod lio {
                pub use super::lz::{Read, Write};
                pub type Res<T> = super::lz::Result<T>;
                pub fn class(e: &super::lz::Error) -> u8 {
                    use super::lz::Error::*;
                    match e {
                        EOF => 1,
                        Interrupted => 2,
                        InvalidData(_) => 3,
                        InvalidInput(_) => 4,
                        OutOfMemory(_) => 5,
                        Other(_) => 6,
                        Unsupported(_) => 7,
                        WriteZero(_) => 8,
                    }
                }
            }
            include!("../../scen/xcase.rs");
        }
    };
}

std_instance!(i_std, lz_std);
std_instance!(i_noopt, lz_noopt);
nostd_instance!(i_nostd_opt, lz_nostd_opt);
nostd_instance!(i_nostd, lz_nostd);

const NAMES: [&str; 4] = ["std+optimization (default)", "std without optimization", "no_std+optimization", "no_std without optimization"];

struct X;

fn tier() -> &'static str {
    if std::env::var("VERIF_TIER").map(|t| t == "thorough").unwrap_or(false) {
        "thorough"
    } else {
        "quick"
    }
}

fn gen_case(prop: &str, scen: &str, seed: u64) -> Case {
    let rng = Rng::new(seed);
    let mut case = Case { prop: prop.into(), scen: scen.into(), seed, ..Default::default() };
    let big = tier() == "thorough";
    let mut r_in = rng.fork("input");
    let mut r_opt = rng.fork("opts");
    let mut r_ops = rng.fork("ops");
    let mut r_f = rng.fork("faults");
    match scen {
        "xcfg.encode" | "xcfg.decode" => {
            let len = biased_len(&mut r_in, if big { 200_000 } else { 30_000 }, &[4096, 8192, 65536]);
            optgen::random_format(&mut r_opt, &mut case, &["lzma", "lzma2", "lzma2", "xz", "lzip"], len);
            case.input = random_input(&mut r_in, len, case.opt.dict);
            case.set("pieces_seed", (r_ops.next_u64() >> 1) as i64);
            case.rbufs = random_rbufs(&mut r_ops);
            // short reads / short writes through the instance's own Read/Write traits
            case.set("io_step", *r_ops.pick(&[1i64 << 30, 1 << 30, 1 << 30, 1 << 30, 1 << 30, 1, 3, 7, 100, 4096]));
            if scen == "xcfg.encode" {
                if r_f.pct(35) {
                    case.set("bias_k", r_in.range(1, len as u64 + 8) as i64);
                }
                if r_f.pct(8) {
                    // the input fills the encoder's window buffer exactly (or misses it by a few
                    // bytes) and matches earlier data up to its last byte: the word-wise and the
                    // byte-wise match extension meet the physical end of the buffer here
                    case.opt.dict = *r_opt.pick(&[4096u32, 4096, 4097, 8192]);
                    case.opt.preset = None;
                    case.opt.unit = None;
                    case.opt.filters.clear();
                    case.knobs.remove("bias_k");
                    let l = (window_buffer_size(&case) as i64 + *r_in.pick(&[0i64, 0, 0, 0, -1, 1, -8, 64])) as usize;
                    case.input = simcore::case::InputSpec::new(*r_in.pick(&["periodic", "periodic", "zero", "const", "text"]), l, r_in.next_u64());
                    case.input.p1 = *r_in.pick(&[1u64, 3, 7, 64, 777, 1000]);
                    case.set("io_step", 1 << 30);
                }
            } else {
                match r_f.below(5) {
                    0 => {}
                    1 => case.set("trunc_permille", r_f.below(1000) as i64 + 1),
                    2 => case.set("garbage", 1),
                    _ => {
                        for _ in 0..r_f.range(1, 3) {
                            let mut f = storage::random_fault(&mut r_f, 1000);
                            f.name = "permille".into();
                            case.storage.push(f);
                        }
                    }
                }
            }
        }
        "xcfg.normalize" => {
            case.set("len", r_in.range(0, 70) as i64);
            case.set("align", r_in.range(0, 16) as i64);
            let any = r_in.range(1, 0x7FFF_FFFF) as i64;
            case.set("off", *r_in.pick(&[1i64, 2, 4097, 0x7FFF_EFFE, 0x7FFF_FFFE, 0x7FFF_FFFF, any]));
            case.set("vals_seed", (r_in.next_u64() >> 1) as i64);
            case.set("realistic", r_in.pct(50) as i64);
        }
        _ => {
            // xcfg.direct_bits
            case.set("buf_len", *r_in.pick(&[1i64, 2, 5, 64, 65531]));
            case.set("state_seed", (r_in.next_u64() >> 1) as i64);
            case.set("count", r_in.range(1, 26) as i64);
            case.set("pos_from_end", r_in.range(0, 12) as i64 - 3);
        }
    }
    case
}

/// Size of the encoder's window buffer for these options (see scen/oob.rs): an input of exactly
/// this length, finished right away, is the one shape in which the encoder looks at the very
/// last byte of the allocation.
fn window_buffer_size(case: &Case) -> usize {
    let dict = if case.fmt == "lzip" { case.opt.dict.clamp(4096, 512 << 20) } else { case.opt.dict } as usize;
    let fast = case.opt.mode == 0;
    let mut extra_before = if fast { 1 } else { 4096 };
    if case.fmt == "lzma2" || case.fmt == "xz" {
        extra_before = extra_before.max((65536usize).saturating_sub(dict));
    }
    let extra_after = if fast { 272 } else { 4096 };
    let reserve = (dict / 2 + (256 << 10)).min(512 << 20);
    extra_before + dict + extra_after + 273 + reserve
}

fn pieces(seed: u64, len: usize) -> Vec<usize> {
    let mut r = Rng::new(seed);
    match r.below(3) {
        0 => vec![len],
        1 => vec![len / 2, 1, len / 3],
        _ => (0..r.urange(1, 8)).map(|_| r.urange(0, len / 2 + 1)).collect(),
    }
}

fn divergence(what: &str, idx: usize, detail: String) -> Violation {
    Violation::new("config-divergence", NAMES[idx], what, detail)
}

fn exec_case(case: &Case, keep_log: bool) -> RunResult {
    let mut ctx = Ctx::new(keep_log);
    let v = match case.scen.as_str() {
        "xcfg.encode" => x_encode(case, &mut ctx),
        "xcfg.decode" => x_decode(case, &mut ctx),
        "xcfg.normalize" => x_normalize(case, &mut ctx),
        _ => x_direct_bits(case, &mut ctx),
    };
    for (k, v) in i_std::probes() {
        ctx.probe(&k, v);
    }
    let _ = (i_noopt::probes(), i_nostd_opt::probes());
    for (k, v) in i_nostd::probes() {
        ctx.probe(&format!("no_std:{k}"), v);
    }
    ctx.finish(v)
}

fn x_encode(case: &Case, ctx: &mut Ctx) -> Option<Violation> {
    let data = case.input.gen();
    let pcs = pieces(case.knob("pieces_seed") as u64, data.len());
    let k = case.knob("bias_k");
    let cyc = if case.fmt == "lzip" { case.opt.dict.clamp(4096, 512 << 20) } else { case.opt.dict } as i64 + 1;
    let bias = if k > 0 { (0x7FFF_FFFFi64 - cyc - k) as i32 } else { 0 };
    if k > 0 {
        ctx.fire("position_jump", 1);
    }
    let a = i_std::encode(case, &data, &pcs, bias);
    let others = [(1, { let e = i_noopt::encode(case, &data, &pcs, bias); (e.status, e.class, e.site, e.bytes) }), (2, { let e = i_nostd_opt::encode(case, &data, &pcs, bias); (e.status, e.class, e.site, e.bytes) }), (3, { let e = i_nostd::encode(case, &data, &pcs, bias); (e.status, e.class, e.site, e.bytes) })];
    ctx.bytes("stream", &a.bytes);
    ctx.ev("status", a.status as u64);
    ctx.nontrivial = !data.is_empty();
    for (i, (st, cl, site, bytes)) in others {
        if st != a.status || (st == 1 && cl != a.class) {
            return Some(divergence("encode-outcome", i, format!("default: status {} class {} {}; this configuration: status {st} class {cl} {site} (0 ok, 1 error, 2 panic){}", a.status, a.class, a.site, if k > 0 { format!(" with positions wrapping after {k} bytes") } else { String::new() })));
        }
        if st == 0 && bytes != a.bytes {
            let d = bytes.iter().zip(a.bytes.iter()).position(|(x, y)| x != y).unwrap_or(bytes.len().min(a.bytes.len()));
            return Some(divergence("compressed-bytes", i, format!("{} vs {} bytes, first difference at {d}{}", bytes.len(), a.bytes.len(), if k > 0 { format!(" with positions wrapping after {k} bytes") } else { String::new() })));
        }
    }
    None
}

fn x_decode(case: &Case, ctx: &mut Ctx) -> Option<Violation> {
    let data = case.input.gen();
    let e = i_std::encode(case, &data, &[data.len()], 0);
    if e.status != 0 {
        ctx.metric("skipped_writer_failed", 1);
        return None;
    }
    let mut stream = e.bytes;
    if case.knob("garbage") != 0 {
        let mut r = Rng::new(case.seed ^ 9);
        let keep = r.urange(0, stream.len().min(20));
        let mut g = vec![0u8; r.urange(1, 400)];
        r.fill(&mut g);
        stream.truncate(keep);
        stream.extend_from_slice(&g);
        ctx.fire("garbage", 1);
    }
    if case.knob("trunc_permille") > 0 {
        let t = stream.len() as i64 * (case.knob("trunc_permille") - 1) / 1000;
        stream.truncate(t as usize);
        ctx.fire("truncation", 1);
    }
    let n = stream.len() as u64;
    let faults: Vec<StFault> = case
        .storage
        .iter()
        .map(|f| {
            let mut g = f.clone();
            g.a = f.a * n / 1000;
            if f.kind == "swap" {
                g.b = f.b * n / 1000;
            }
            g
        })
        .collect();
    let applied = storage::apply(&mut stream, &faults);
    ctx.fire("storage_fault", applied);
    ctx.bytes("stream", &stream);
    ctx.nontrivial = true;
    let sizes = case.read_sizes();
    let cap = stream.len() * 2000 + (4 << 20);
    let a = i_std::decode(case, &stream, data.len(), &sizes, cap);
    ctx.bytes("out", &a.out);
    ctx.ev("status", a.status as u64 * 256 + a.class as u64);
    let others = [(1, { let d = i_noopt::decode(case, &stream, data.len(), &sizes, cap); (d.status, d.class, d.site, d.out) }), (2, { let d = i_nostd_opt::decode(case, &stream, data.len(), &sizes, cap); (d.status, d.class, d.site, d.out) }), (3, { let d = i_nostd::decode(case, &stream, data.len(), &sizes, cap); (d.status, d.class, d.site, d.out) })];
    for (i, (st, cl, site, out)) in others {
        if st != a.status || (st == 1 && cl != a.class) {
            return Some(divergence("decode-outcome", i, format!("default: status {} class {} {} after {} bytes; this configuration: status {st} class {cl} {site} after {} bytes", a.status, a.class, a.site, a.out.len(), out.len())));
        }
        if out != a.out {
            let d = out.iter().zip(a.out.iter()).position(|(x, y)| x != y).unwrap_or(out.len().min(a.out.len()));
            return Some(divergence("decoded-bytes", i, format!("{} vs {} bytes delivered before the same end (status {st} class {cl}), first difference at {d}", out.len(), a.out.len())));
        }
    }
    None
}

fn x_normalize(case: &Case, ctx: &mut Ctx) -> Option<Violation> {
    let len = case.knob("len") as usize;
    let align = case.knob("align") as usize;
    let off = case.knob("off").clamp(1, i32::MAX as i64) as i32;
    let mut r = Rng::new(case.knob("vals_seed") as u64);
    let realistic = case.knob("realistic") != 0;
    let vals: Vec<i32> = (0..len)
        .map(|_| {
            let any = r.next_u64();
            if realistic {
                // positions are 0 ("empty") or up to 2^31-1
                *r.pick(&[0i32, 1, off - 1, off, off.saturating_add(1), i32::MAX, (any % (i32::MAX as u64)) as i32])
            } else {
                *r.pick(&[i32::MIN, i32::MIN + 1, -1, -off, 0, 1, off - 1, off, off.saturating_add(1), i32::MAX, any as i32])
            }
        })
        .collect();
    let expect: Vec<i32> = vals.iter().map(|&p| (p as i64 - off as i64).max(0) as i32).collect();
    ctx.ev("len", len as u64);
    ctx.nontrivial = len > 0;
    type F = fn(&mut [i32], i32);
    let fns: [(usize, &str, F); 8] = [
        (0, "dispatch", i_std::normalize_dispatch),
        (0, "scalar", i_std::normalize_scalar),
        (1, "dispatch", i_noopt::normalize_dispatch),
        (1, "scalar", i_noopt::normalize_scalar),
        (2, "dispatch", i_nostd_opt::normalize_dispatch),
        (2, "scalar", i_nostd_opt::normalize_scalar),
        (3, "dispatch", i_nostd::normalize_dispatch),
        (3, "scalar", i_nostd::normalize_scalar),
    ];
    for (i, name, f) in fns {
        // place the slice at a chosen misalignment relative to a 64-byte boundary (the address
        // of a fresh Vec is not reproducible, the offset from the boundary is)
        let mut big = vec![0i32; len + 64];
        let addr = big.as_ptr() as usize;
        let base = ((64 - (addr % 64)) % 64) / 4;
        let align = base + align;
        big[align..align + len].copy_from_slice(&vals);
        f(&mut big[align..align + len], off);
        let got = &big[align..align + len];
        if got != expect.as_slice() {
            let d = got.iter().zip(expect.iter()).position(|(x, y)| x != y).unwrap();
            return Some(divergence(&format!("normalize-{name}"), i, format!("offset {off}, {} values at alignment {align}: element {d} was {} and became {}, expected {} (max(p - offset, 0))", len, vals[d], got[d], expect[d])));
        }
        if big[..align].iter().any(|&x| x != 0) || big[align + len..].iter().any(|&x| x != 0) {
            return Some(divergence(&format!("normalize-{name}"), i, "wrote outside the slice".into()));
        }
    }
    None
}

fn x_direct_bits(case: &Case, ctx: &mut Ctx) -> Option<Violation> {
    let mut r = Rng::new(case.knob("state_seed") as u64);
    let n = case.knob("buf_len").max(1) as usize;
    let mut buf = vec![0u8; n];
    r.fill(&mut buf);
    let range = match r.below(5) {
        // never below 2^16: the smallest range a decoder can hold between two operations is
        // 31 * 2^13 (a bit decoded with the extreme probability from a just normalised range);
        // below 2^16 one normalisation step is not enough and the two implementations are free
        // to differ (the assembly normalises once per bit, the portable code loops)
        0 => r.range(1 << 16, 0x00FF_FFFF) as u32,
        1 => r.range(0x0100_0000, 0xFFFF_FFFF) as u32,
        2 => 0xFFFF_FFFF,
        // the normalisation threshold itself and every value that reaches it by the halving
        // the loop does per bit: powers of two and their neighbours
        _ => ((1u64 << (16 + r.below(16))) as i64 + *r.pick(&[0i64, 0, 0, -1, 1])).clamp(1 << 16, 0xFFFF_FFFF) as u32,
    };
    let code = r.range(0, range as u64 - 1) as u32;
    let pos = (n as i64 - case.knob("pos_from_end")).clamp(0, n as i64 + 3) as usize;
    let count = case.knob("count").clamp(1, 26) as u32;
    ctx.ev("pos_from_end", (n as i64 - pos as i64) as u64);
    ctx.nontrivial = true;
    let a = i_std::direct_bits(range, code, &buf, pos, count);
    let others = [(1, i_noopt::direct_bits(range, code, &buf, pos, count)), (2, i_nostd_opt::direct_bits(range, code, &buf, pos, count)), (3, i_nostd::direct_bits(range, code, &buf, pos, count))];
    for (i, b) in others {
        if a != b {
            return Some(divergence("decode_direct_bits", i, format!("range {range:#x} code {code:#x} buffer of {n} bytes pos {pos} count {count}: default gives (result, range, code, pos) = {a:?}, this configuration {b:?}")));
        }
    }
    None
}

impl Engine for X {
    fn name(&self) -> &'static str {
        "lzsim-xcfg"
    }
    fn properties(&self) -> Vec<&'static str> {
        vec!["C14"]
    }
    fn plan(&self, _prop: &str, tier: &str) -> Vec<(String, u64)> {
        let t = tier == "thorough";
        let p = |s: &str, q: u64, th: u64| (s.to_string(), if t { th } else { q });
        vec![p("xcfg.encode", 6000, 80_000), p("xcfg.decode", 12000, 200_000), p("xcfg.normalize", 20000, 300_000), p("xcfg.direct_bits", 40000, 500_000)]
    }
    fn gen(&self, prop: &str, scen: &str, _k: u64, seed: u64) -> Case {
        gen_case(prop, scen, seed)
    }
    fn exec(&self, case: &Case, keep_log: bool) -> RunResult {
        exec_case(case, keep_log)
    }
    fn meta(&self, _prop: &str) -> PropMeta {
        PropMeta {
            level: "exploration",
            rule: "one run = one case executed against four library instances linked into one process (default; std without optimization; no_std with optimization; no_std without). xcfg.encode: format x in-range options x input x write pieces, 35% with match-finder positions wrapping inside the input (hook H3): status and compressed bytes must be identical. xcfg.decode: a valid stream, untouched / truncated / replaced by garbage after a short prefix / hit by 1-3 storage faults: bytes delivered, Ok/Err and the error class (std ErrorKind and the no_std enum mapped to one set) must be identical. xcfg.normalize: scalar and dispatched renormalisation of every instance on i32 arrays of length 0-70 at 17 alignments with edge values, expected max(p - offset, 0). xcfg.direct_bits: decode_direct_bits on generated (range, code, buffer, position incl. at and beyond the end, count): result, range, code and final position must agree between the assembly and the portable loop. Non-trivial: non-empty input / array; distinct = distinct event-log digests.".into(),
            assumptions: vec!["only the host (x86_64, little endian, AVX2/SSE4.1 as detected at run time) is executed; aarch64 assembly, NEON and big-endian branches are out of reach".into()],
            real: vec!["all of /repo/src in four feature configurations (lz_std, lz_noopt, lz_nostd_opt, lz_nostd shadow packages, cfg lzma_rust2_verif)"],
            stubs: vec!["slices and Vec as sources and sinks (the crate's own no_std Read/Write impls in the no_std instances)"],
            exhaustive_part: None,
        }
    }
}

fn main() {
    simcore::orch::main(&X)
}
