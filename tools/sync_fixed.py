#!/usr/bin/env python3
"""Rebuilds the 'fixed' list of known_findings.json from the fix: commits of /repo.
The property id and the description of what failed come from the table below."""
import json, subprocess
PROP = {
 'lost wake-up in WorkStealingQueue::close': ('C10', 'worker between its closed check and Condvar::wait slept forever after drop/finish (thread leak; mt.drop under random/PCT schedules)'),
 'a failing MT worker left the coordinator': ('C09', 'worker stored the error and returned without waking the coordinator blocked in recv(): read()/finish() hung (mt.fault, deadlock)'),
 'LZMA2ReaderMT hung on empty input': ('C09', 'zero-length input deadlocked, input without 0x00 end marker was a clean end of stream'),
 'LZIP header announced a smaller dictionary': ('C02', 'encode_dict_size rounded the fraction up: dict 5000 announced as 4608, own reader fails with dist overflow'),
 'LZIPReader decoded garbage': ('C04', 'every header parse failure (garbage, damaged version/dict byte, I/O error) was a clean end of stream; LZIPReaderMT dropped damaged members silently'),
 'LZIPReader panicked when read again after a trailer error': ('C06', 'inner reader lost after a trailer read error, next read panicked'),
 'second dictionary reset inside an independent chunk': ('C01', 'LZMA2Writer chunk_size + several writes + unit starting with incompressible bytes -> second 0xE0 reset -> dist overflow'),
 'debug assertion in process_pending_bytes': ('C01', 'write(1 byte), flush() panicked in builds with debug assertions'),
 'panicked in copy_uncompressed': ('C01', 'LZMAEncoder::new dropped extra_size_before: dict < 64 KiB + incompressible input larger than the window buffer'),
 'shrank its window below the preset dictionary': ('C01', 'LZMAReader with known size and longer preset dictionary -> dist overflow on valid streams'),
 'malformed file for empty input': ('C02', 'XZWriter::finish on empty input wrote padding/check/index record for a non-existent block'),
 'index records left out the block header': ('C03', 'liblzma rejects every XZWriter file with LZMA_DATA_ERROR'),
 'short reads in the block padding': ('C05', 'consume_padding used a single read(): short read -> error; Interrupted -> raw compressed bytes returned as data'),
 'could not read concatenated streams': ('C12', 'try_start_next_stream had == for != on the magic byte'),
 'zero-length read() on XZReader': ('C07', 'read(&mut []) was taken for end of block -> checksum error on a valid file'),
 'interrupted read while looking for the next XZ stream': ('C05', 'Interrupted left the stream scan half done; retry parsed garbage'),
 'blocks grew beyond the configured block size': ('C18', 'XZWriter::write passed the whole remaining buffer to the current block'),
 'BCJWriter dropped bytes': ('C05', 'short writes of the inner writer ignored'),
 'DeltaWriter corrupted the stream': ('C05', 'short count returned after filtering everything: bytes filtered twice'),
 'XZWriter with a BCJ pre-filter': ('C02', 'BCJ stage filtered each write() separately: files written in more than one write() were corrupt'),
 'BCJReader turned an interrupted read': ('C05', 'Interrupted stored as sticky error (retrying caller spins); bytes already copied out dropped on error'),
 'LZMAReader ignored read errors': ('C05', 'stream range decoder mapped read errors/EOF to zero bytes: dist overflow, wrong data, clean EOF or unbounded zeros'),
 'BCJ filters panicked on address overflow': ('C11', 'x86/ARM/Thumb/PPC/SPARC used + and - on 32-bit addresses: panic with overflow checks for offsets near 2^31'),
 'BCJ2Reader lost data': ('C11', 'input stream error (Interrupted) mid-call lost decoded output and already read CALL/JUMP bytes'),
 'XZ index record count from the file': ('C06', 'Vec::with_capacity(record count) before any validation: 64 GiB request aborts the process'),
 'LZMA2Reader panicked for dictionary sizes 0': ('C06', '(dict_size + 15) overflow for XZ property 40 / caller sizes >= 2^32-15, empty window for 0'),
 'LZMA2Reader overflowed on an uncompressed chunk of 65536': ('C06', 'u16 + 1 overflow for size field 0xFFFF'),
 'LZMAReader panicked when read again': ('C06', 'no sticky error: read after error panicked in LZDecoder / size bookkeeping'),
 'LZIPReader panicked with "inner reader not set"': ('C06', 'failed step consumed the inner reader; next read hit expect()'),
 'XZReader overflowed the stack': ('C06', 'prepare_next_block recursed once per block-less stream: 60000 empty streams crashed the process'),
 'MT readers overflowed the stack': ('C06', 'read() recursed once per empty unit: thousands of empty LZIP members overflowed the stack'),
 'MT readers could hand out units that follow a failed unit': ('C09', 'coordinator looked at in-order results before the error store: data from the wrong position, then the error'),
 'MT readers returned data again after they had reported an error': ('C09', 'error not sticky: a read() after the error returned reorder-buffer contents from behind the failed unit (found when calls-after-error were added to mt.fault/mt.drop/mt.corrupt)'),
 'finish() of the MT writers blocked forever': ('C09', 'finish() after a worker error already reported by write()/flush() reset the state to Finishing and waited in recv() forever (found when calls after an error and worker-rejected options were added to mt.fault)'),
 'XZReader accepted stream padding that is not a multiple of four at the end': ('C04', 'multi-stream file truncated inside the stream padding behind a stream (e.g. 11 zero bytes, then EOF) was read as complete: success with the later streams missing; also C12 (malformed padding). Found by corrupt.random truncations over multi-stream files; concat.xz now places malformed padding behind the last stream as well'),
 'encoder memory estimate ignored the literal coder': ('C17', 'LZMAOptions::get_memory_usage() had no lc/lp term: for an LZMA writer with lc + lp > 4 (up to 12) the literal coder (1.5 KiB x 2^(lc+lp), up to 6 MiB) was not counted and the peak exceeded the estimate. Found after a seeder (S-C17-3 notes) pointed out that mem.encoder only drew lc/lp within the LZMA2 limits; the scenario now draws lc 0..=8, lp 0..=4 for the LZMA writer'),
 'LZMA2Writer held two encoders at every independent chunk boundary': ('C17', 'with chunk_size set the new encoder was built while the old one was alive: peak about twice the estimate at every independent chunk. Found after the same notes; mem.encoder now writes in pieces and flushes at unit boundaries so that independent chunks really start'),
 'encoder memory estimate added the window size in bytes': ('C17', 'LZEncoder::get_memory_usage added bytes to KiB: 330716 KiB reported for a 0.9 MiB encoder'),
 'encoder memory estimate left out the three-byte hash table': ('C17', 'Hash234::get_mem_usage summed HASH2_MASK + HASH2_SIZE instead of HASH2_SIZE + HASH3_SIZE: estimate below the real peak for small dictionaries'),
 'out-of-range encoder options': ('C19', 'lc+lp>4, lp=5, pb=5, nice_len outside 8..=273, dict 0, delta distance 0, unaligned BCJ offsets, preset dictionary with XZ/LZIP: undecodable streams or panics'),
 'empty preset dictionary': ('C19', 'Some(empty) preset suppressed the initial dictionary reset: own reader rejects the stream'),
 'scalar position normalisation produced negative positions': ('C14', 'saturating_sub clamps at i32::MIN: no_std builds and the unaligned ends of SIMD builds got negative positions after the 2^31 wrap -> overflow panics / wrong matches'),
 'BCJ2Reader reported a clean end of stream when one of its input streams ended early': ('C05', 'when the decoder needed more of the main/call/jump/rc stream and that stream was at its end, read() returned Ok(0) with fewer bytes than the expected size: silent truncation (bcj2.io, every cut of one of the four streams; found when BCJ2 scenarios were added to C05 after seeded change S-C05-4)'),
 "BCJ2Reader dropped an input stream's error": ('C05', 'a persistent error from the look-ahead read behind the last byte of output was returned as Ok(n) and never seen again: clean end of stream although a call the reader made had failed (bcj2.io, error at every call index)'),
 'XZReader did not compare the index records with the blocks': ('C04', 'only the record count was compared: a file with two blocks of different sizes swapped (every block with valid header CRC and check) was read as a valid file with the data in the wrong order; liblzma rejects it (corrupt.field whole-structure edits, added after seeded change S-C04-4)'),
 'assembly decode_direct_bits disagreed': ('C14', 'asm clamps reads/position at the buffer end, portable substitutes zeros: damaged chunks decoded differently with and without optimization'),
}
log = subprocess.run(['git','-C','/repo','log','--reverse','--format=%h %s'],capture_output=True,text=True).stdout.splitlines()
fixed=[]; missing=[]
for l in log:
    h, subj = l.split(' ',1)
    if not subj.startswith('fix:'): continue
    for k,(p,what) in PROP.items():
        if k in subj:
            fixed.append(f"fixed: property={p} {h} {what}"); break
    else:
        missing.append(l)
k=json.load(open('/verif/known_findings.json'))
k['fixed']=fixed
json.dump(k,open('/verif/known_findings.json','w'),indent=1)
print(len(fixed),'fixed entries;','UNMAPPED:',missing)
