#!/bin/bash
# tools/try_seed.sh <id> [property ...]
# Applies $ROOT/seeded/<id>/patch.diff to /repo, runs the quick checks of the given properties
# (default: the property recorded in meta.json, else all), and ALWAYS restores /repo afterwards.
set -u
id="$1"; shift
ROOT="$(cd "$(dirname "$0")/.." && pwd)"
# VERIF_REPO: a scratch clone of /repo that a COPY of /verif is built from (its shadow manifests
# point there); used for long batches (tools/seed_matrix.sh) so that /repo itself stays untouched
REPO="${VERIF_REPO:-/repo}"
dir="$ROOT/seeded/$id"
[ -f "$dir/patch.diff" ] || { echo "no $dir/patch.diff"; exit 2; }
props="$*"
if [ -z "$props" ]; then props="$(python3 -c "import json;print(' '.join(json.load(open('$dir/meta.json')).get('check_with',[])))" 2>/dev/null)"; fi
[ -n "$props" ] || props="C01 C02 C03 C04 C05 C06 C07 C08 C09 C10 C11 C12 C13 C14 C15 C16 C17 C18 C19"
if [ "$REPO" = /repo ]; then exec 8>/var/tmp/lzsim-repo.lock; flock -x 8; fi; export VERIF_NO_REPO_LOCK=1
# (checked under the lock: another trial may have had its change applied a moment ago)
[ -z "$(git -C "$REPO" status --porcelain -- src Cargo.toml)" ] || { echo "/repo has uncommitted changes"; exit 2; }
git -C "$REPO" apply "$dir/patch.diff" || { echo "patch does not apply"; exit 2; }
# evidence/ and replays/ describe the unchanged tree: keep them out of a seed trial's way
bak="$(mktemp -d /var/tmp/seedtrial.XXXXXX)"
cp -a $ROOT/evidence "$bak/evidence"; [ -d $ROOT/replays ] && mv $ROOT/replays "$bak/replays"
restore() {
  git -C "$REPO" checkout -- .
  # keep the three smallest replay files of the trial next to the patch
  rm -rf "$dir/replays"; mkdir -p "$dir/replays"
  ls -Sr $ROOT/replays/*.json 2>/dev/null | head -3 | while read -r f; do cp "$f" "$dir/replays/"; done
  rmdir "$dir/replays" 2>/dev/null
  rm -rf $ROOT/evidence $ROOT/replays
  cp -a "$bak/evidence" $ROOT/evidence; [ -d "$bak/replays" ] && cp -a "$bak/replays" $ROOT/replays
  rm -rf "$bak"
}
trap restore EXIT
caught=""
for p in $props; do
  out="$(cd "$ROOT" && VERIF_SEED="${VERIF_SEED:-20260923}" ./check "$p" "${TIER:-quick}" 2>&1)"; rc=$?
  n=$(echo "$out" | grep -c '^VIOLATION')
  echo "$p: exit $rc, $n VIOLATION line(s)"
  echo "$out" | grep -A1 '^VIOLATION' | grep '^#' | head -3
  [ "$rc" -eq 1 ] && caught="$caught $p"
done
echo "CAUGHT-BY:$caught"
