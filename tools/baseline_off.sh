#!/bin/bash
# Runs the repository's own test suite with the verification guard OFF and compares the set of
# passing tests with the stable baseline in /root/.vp/BASELINE.json. Exit 0 iff every
# stable-pass test passes.
set -u
cd /repo
export CARGO_NET_OFFLINE=true
unset RUSTFLAGS
OUT=$(mktemp -d /var/tmp/lzbase.XXXXXX)
cargo nextest run --workspace --no-fail-fast --tool-config-file pb:/verif/tools/nextest.toml \
   --profile pb --test-threads 8 --offline > "$OUT/log" 2>&1
python3 - "$OUT/log" <<'PY'
import json,re,sys
log=open(sys.argv[1],errors='replace').read()
base=json.load(open('/root/.vp/BASELINE.json'))
passed=set()
for m in re.finditer(r'^\s+PASS \[[^\]]*\]\s+(?:\(\s*\d+/\s*\d+\)\s+)?(\S+)\s+(\S+)',log,re.M):
    passed.add(m.group(1)+'::'+m.group(2))
want=set(base['stable_pass'])
missing=sorted(want-passed)
print(f"baseline stable_pass={len(want)} passed_now={len(passed & want)} missing={len(missing)}")
for t in missing[:20]: print("  MISSING",t)
sys.exit(1 if missing else 0)
PY
rc=$?
rm -rf "$OUT"
exit $rc
