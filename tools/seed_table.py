#!/usr/bin/env python3
"""tools/seed_table.py: (1) folds seeded/<id>/check_output.txt (written by tools/seed_matrix.sh)
into seeded/<id>/meta.json ("caught_by", "check_result"), (2) rewrites the table between the
markers <!-- seeded:begin --> / <!-- seeded:end --> in DESIGN.md from the meta files."""
import json, os, re, glob
rows = []
for d in sorted(glob.glob('/verif/seeded/S-*')):
    mp = os.path.join(d, 'meta.json')
    if not os.path.exists(mp):
        continue
    m = json.load(open(mp))
    co = os.path.join(d, 'check_output.txt')
    if os.path.exists(co):
        out = open(co).read()
        caught = re.search(r'^CAUGHT-BY:(.*)$', out, re.M)
        m['caught_by'] = caught.group(1).split() if caught else []
        res = []
        for line in out.splitlines():
            if re.match(r'^C\d\d: exit', line) or line.startswith('# '):
                res.append(line[:300])
        m['check_result'] = res[:12]
        json.dump(m, open(mp, 'w'), indent=1)
    first = 'yes' if m.get('note', '').startswith('MISSED') else ''
    sig = ''
    for l in m.get('check_result', []):
        if l.startswith('# '):
            sig = l[2:]; break
    rows.append((m['id'], m['property'], m['needs_to_manifest'], ', '.join(m.get('caught_by', [])) or 'NOT CAUGHT', sig, first))
tab = ['| seeded change | what it needs in order to manifest | caught by (quick tier, default seed) | first finding reported | missed at first |', '|---|---|---|---|---|']
for r in rows:
    needs = r[2].replace('|', '/').replace('\n', ' ')
    if len(needs) > 330: needs = needs[:327] + '...'
    tab.append(f"| {r[0]} | {needs} | {r[3]} | {r[4][:160].replace('|','/')} | {r[5]} |")
s = open('/verif/DESIGN.md').read()
b, e = '<!-- seeded:begin -->', '<!-- seeded:end -->'
if b in s:
    s = s[:s.index(b) + len(b)] + '\n' + '\n'.join(tab) + '\n' + s[s.index(e):]
    open('/verif/DESIGN.md', 'w').write(s)
print(len(rows), 'rows')
