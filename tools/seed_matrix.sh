#!/bin/bash
# tools/seed_matrix.sh [id ...]
# Runs every seeded change in /verif/seeded against the quick check of its own property (plus the
# further checks named in EXTRA) and stores the output as seeded/<id>/check_output.txt.
# /repo is restored after every trial (tools/try_seed.sh); evidence/ is left as it was.
declare -A EXTRA=( [S-C01-2]="C08" [S-C12-2]="C16" [S-C15-2]="C14" [S-C18-2]="C08" [S-C19-1]="C02" [S-C19-2]="C01" [S-C18-1]="C08" [S-C09-1]="C06" [S-C04-1]="C05" [S-C05-2]="C04" [S-C13-2]="C08" [S-C08-1]="C10 C09" )
ROOT="$(cd "$(dirname "$0")/.." && pwd)"
ids="$*"; [ -n "$ids" ] || ids="$(ls "$ROOT/seeded")"
for id in $ids; do
  prop="$(echo "$id" | sed -E 's/^S-(C[0-9]+)-.*/\1/')"
  "$ROOT/tools/try_seed.sh" "$id" $prop ${EXTRA[$id]:-} > "$ROOT/seeded/$id/check_output.txt" 2>&1
  echo "$id: $(grep '^CAUGHT-BY' $ROOT/seeded/$id/check_output.txt)"
done
