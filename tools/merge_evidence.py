#!/usr/bin/env python3
"""Merges the evidence parts written by several engines for one property into one file."""
import json, sys

def merge_counts(a, b):
    out = dict(a)
    for k, v in b.items():
        out[k] = out.get(k, 0) + v if isinstance(v, (int, float)) and isinstance(out.get(k, 0), (int, float)) else v
    return out

def main():
    out_path, parts = sys.argv[1], sys.argv[2:]
    if not parts:
        print("harness error: no evidence parts", file=sys.stderr)
        return 2
    docs = [json.load(open(p)) for p in parts]
    if len(docs) == 1:
        json.dump(docs[0], open(out_path, "w"), indent=1)
        return 0
    base = docs[0]
    cov = base["coverage"]
    cov["engines"] = [d["coverage"].get("engine") for d in docs]
    for d in docs[1:]:
        c = d["coverage"]
        for k in ("evaluations", "distinct_nontrivial", "simulated_runs", "nontrivial_runs", "simulated_steps", "distinct_schedules", "worker_restarts"):
            cov[k] = cov.get(k, 0) + c.get(k, 0)
        for k in ("faults_fired", "probes_hit", "metrics", "runs_per_scenario"):
            cov[k] = merge_counts(cov.get(k, {}), c.get(k, {}))
        cov["samples"] = (cov.get("samples", []) + c.get("samples", []))[:4]
        cov["components_real"] = sorted(set(cov.get("components_real", []) + c.get("components_real", [])))
        cov["components_stub"] = sorted(set(cov.get("components_stub", []) + c.get("components_stub", [])))
        cov["known_findings_hit"] = cov.get("known_findings_hit", []) + c.get("known_findings_hit", [])
        cov["rule"] = cov.get("rule", "") + " || " + c.get("rule", "")
        base["wall_s"] = base.get("wall_s", 0) + d.get("wall_s", 0)
        base["violations"] = base.get("violations", 0) + d.get("violations", 0)
        base["assumptions"] = base.get("assumptions", []) + d.get("assumptions", [])
    w = base.get("wall_s", 0)
    cov["runs_per_hour"] = int(cov.get("simulated_runs", 0) / w * 3600) if w > 0 else 0
    json.dump(base, open(out_path, "w"), indent=1)
    return 0

sys.exit(main())
