#!/bin/bash
# tools/confirm_seed.sh <id> <worktree> <out_dir_from_agent>
# Confirms an independently seeded change in its scratch worktree:
#   1. builds in both feature sets, 2. the baseline suite still passes (179 stable tests),
#   3. the demonstration fails with the change and passes without it.
# On success copies patch + demo to /verif/seeded/<id>/ (meta.json is written by the caller).
set -u
id="$1"; wt="$2"; out="$3"
export CARGO_NET_OFFLINE=true CARGO_TARGET_DIR="$wt/target"
cd "$wt" || exit 2
git diff -- src > /var/tmp/seed_$id.diff
[ -s /var/tmp/seed_$id.diff ] || { echo "no source change in $wt"; exit 2; }
echo "== patch: $(grep -c '^[-+][^-+]' /var/tmp/seed_$id.diff) changed lines in $(git diff --stat -- src | tail -1)"
cargo build --offline >/dev/null 2>&1 || { echo "FAIL: default build"; exit 1; }
cargo build --offline --no-default-features --features encoder,xz,lzip >/dev/null 2>&1 || { echo "FAIL: no_std build"; exit 1; }
echo "== builds ok"
demo="tests/seeded_demo.rs"
[ -f "$demo" ] || { echo "no demo at $demo"; ls tests examples 2>/dev/null; exit 2; }
# baseline suite with the change (demo excluded)
cargo nextest run --workspace --no-fail-fast --offline --test-threads 8 --tool-config-file pb:/verif/tools/nextest.toml --profile pb -E 'not binary(seeded_demo)' > /var/tmp/seed_$id.suite.log 2>&1
python3 - /var/tmp/seed_$id.suite.log <<'PY'
import json,re,sys
log=open(sys.argv[1],errors='replace').read()
base=set(json.load(open('/root/.vp/BASELINE.json'))['stable_pass'])
passed=set(m.group(1)+'::'+m.group(2) for m in re.finditer(r'^\s+PASS \[[^\]]*\]\s+(?:\(\s*\d+/\s*\d+\)\s+)?(\S+)\s+(\S+)',log,re.M))
missing=sorted(base-passed)
print(f"== suite with change: {len(base&passed)}/{len(base)} stable tests pass")
for t in missing[:10]: print("   MISSING",t)
sys.exit(1 if missing else 0)
PY
suite=$?
DEMOFLAGS=""; grep -q "cfg(lzma_rust2_verif)" "$demo" && DEMOFLAGS="--cfg lzma_rust2_verif"
timeout 1500 env RUSTFLAGS="$DEMOFLAGS" CARGO_TARGET_DIR="$wt/target/demo" cargo nextest run --offline --test seeded_demo --no-fail-fast --test-threads 4 > /var/tmp/seed_$id.demo_with.log 2>&1; with=$?
git apply -R /var/tmp/seed_$id.diff || { echo "cannot revert"; exit 2; }
timeout 1500 env RUSTFLAGS="$DEMOFLAGS" CARGO_TARGET_DIR="$wt/target/demo" cargo nextest run --offline --test seeded_demo --no-fail-fast --test-threads 4 > /var/tmp/seed_$id.demo_without.log 2>&1; without=$?
git apply /var/tmp/seed_$id.diff
echo "== demo with change: exit $with (must be != 0); without: exit $without (must be 0)"
if [ "$suite" -eq 0 ] && [ "$with" -ne 0 ] && [ "$without" -eq 0 ]; then
  mkdir -p /verif/seeded/$id
  cp /var/tmp/seed_$id.diff /verif/seeded/$id/patch.diff
  cp "$demo" /verif/seeded/$id/seeded_demo.rs
  [ -f "$out/NOTES.md" ] && cp "$out/NOTES.md" /verif/seeded/$id/NOTES.agent.md
  echo "CONFIRMED $id"
  exit 0
fi
echo "NOT CONFIRMED $id"; tail -5 /var/tmp/seed_$id.demo_with.log
exit 1
