#!/usr/bin/env python3
"""Writes /verif/MANIFEST.json from the table below (one place to edit)."""
import json, subprocess, os
ROOT = os.path.dirname(os.path.dirname(os.path.abspath(__file__)))

def hook_commits():
    try:
        out = subprocess.run(["git", "-C", "/repo", "log", "--format=%H %s"], capture_output=True, text=True).stdout
        return [l.split()[0] for l in out.splitlines() if " verif hook" in l]
    except Exception:
        return []

CHECKS = {
 "C05": dict(engine="lzsim-st", category="fault_enumeration", design_ref="DESIGN.md §3 C05",
   technique="deterministic simulation: seeded fault injection on the Read/Write seam (every truncation offset / every call index on small streams, sampled beyond), replayable case files",
   text="Every reader and writer is driven through SimSource/SimSink. Per generated stream (single streams of every format, and XZ files of 2-3 concatenated streams with stream padding read with multi-stream decoding on), every truncation offset and an error at every source/sink call index are enumerated (within a per-run budget, sampled beyond it), plus benign short/Interrupted I/O on every call. bcj2.io does the same for BCJ2Reader over its four sources (independent short/Interrupted schedules, a persistent error at every call index of one source, every cut of one stream inside what the reader pulled). Oracle: truncation or a source error ends in Err (with the source's kind for persistent errors), bytes delivered before are a prefix of the original, output is bounded; benign I/O leaves decoded and compressed bytes identical; a sink error is returned by some writer call. Bounded enumeration on small streams plus seeded exploration: evidence, not proof.",
   note="Trusts the harness read/write loops (retry Interrupted like std's read_to_end/write_all) and the LZIP member-boundary rule; only x86_64; streams come from the crate's own writers."),
}

CHECKS.update({
 "C08": dict(engine="lzsim-mt", category="exploration", design_ref="DESIGN.md §3 C08",
   technique="deterministic simulation: real MT reader/writer code on shuttle primitives, own seeded scheduler (random / PCT / round-robin) decides every interleaving, recorded schedule in the replay file",
   text="LZMA2WriterMT/LZIPWriterMT output is decoded single- and multi-threaded and must equal the input; LZMA2ReaderMT/LZIPReaderMT output must equal the single-threaded reader's on streams with dependent chunks, independent units, empty members and trailing bytes, for worker counts 0..300 (clamped) and one seeded schedule per run. Seeded exploration of schedules x inputs: evidence, not proof.",
   note="shuttle models every atomic as SeqCst (no weak-memory reorderings); coroutines replace OS threads; x86_64 only."),
 "C09": dict(engine="lzsim-mt", category="exploration", design_ref="DESIGN.md §3 C09",
   technique="deterministic simulation with fault injection under a seeded scheduler: deadlock = no runnable task (exact), livelock = step budget",
   text="One fault per run (corrupt unit, truncation, zero-length input, missing terminator, persistent source/seek error, sink error/flush error/Ok(0)) under one seeded schedule. Every caller operation must return; the overall result must be Err when the single-threaded reader fails on the same bytes or the injected I/O fault fired, and never Ok with missing or different bytes (LZIP: the original is the authority, LZMA2: the single-threaded reader of the same bytes).",
   note="Deadlock detection is exact for the explored schedule only; step budget 30000 + 600/op + 200/KiB."),
 "C10": dict(engine="lzsim-mt", category="exploration", design_ref="DESIGN.md §3 C10",
   technique="deterministic simulation: drop/finish injected at every point of a caller history under seeded schedules; leaked blocked task detection by the scheduler; worker census hook",
   text="The MT reader/writer is dropped after d = 0..11 caller operations, after finish/end of stream, or after an injected error. drop must return, all spawned tasks must run to completion afterwards (a task blocked forever is a leaked thread), and the census hook must never see more live workers than clamp(requested,1,256).",
   note="A blocked coroutine under shuttle stands for a blocked OS thread; SeqCst atomics only."),
})

ST_NOTE = "Trusts the harness read/write loops and container parsers (written from the format specs); x86_64 only; inputs are sampled by seeded generation, not enumerated."
def st(pid, cat, technique, text, note=ST_NOTE):
    CHECKS[pid] = dict(engine="lzsim-st", category=cat, design_ref="DESIGN.md §3 "+pid, technique=technique, text=text, note=note)

st("C01", "exploration", "deterministic simulation over the Read/Write seams: seeded call histories, benign short/Interrupted I/O, match-finder position jump (hook H3) with a bias-invariance oracle; input x option space by seeded generation",
   "LZMAWriter (4 framings) and LZMA2Writer (plain, chunk_size, preset dictionary) are driven with random write/flush histories through SimSink and read back with random buffer sizes through SimSource; decoded bytes must equal the input, nothing may panic, LZMA2 output must pass the harness's chunk walker. rt.codec.bias starts the match finders just below 2^31-1 so that renormalisation runs inside the stream: compressed bytes must equal the unbiased run. rt.codec.big uses 0.1-6 MB inputs against 4 KiB-1 MiB dictionaries (window moves, 64 KiB/2 MiB chunk limits). The input x option part is plain seeded generation executed inside the simulator; the simulator's own contribution is the history, fault and position-jump dimension.")
st("C02", "exploration", "deterministic simulation over the Read/Write seams (histories, benign faults, position jump); containers x options by seeded generation",
   "XZWriter (all checks, block sizes, 0-3 pre-filters via hook H2) and LZIPWriter (dictionary sizes incl. non-representable ones, member sizes) round trip through the crate's own readers under random histories and benign I/O; same bias and long-input variants as C01.")
st("C07", "exploration", "deterministic simulation: the call-history dimension itself (write partitions, empty writes, flushes; read buffer sequences incl. zero-length)",
   "Per generated (format, options, input) several write histories (one shot, byte-at-a-time, huge-then-tiny, random with flushes and empty writes) must all decode to the input; several read histories incl. zero-length destinations must all yield the same bytes. Covers every writer/reader and the filter writers/readers; bcj2.history reads the four BCJ2 streams under 6-12 destination-size histories.")
st("C12", "exploration", "deterministic simulation: concatenated streams/members with benign short/Interrupted reads on the padding scanner",
   "1-5 XZ streams with different options joined (and followed) by valid (0,4,8,12,16) or invalid (1,2,3,5,6,7) stream padding, 1-8 LZIP members; multi-stream reader must return the concatenation / reject bad padding also behind the last stream, single-stream mode returns the first stream only and neither needs nor judges what follows it (another stream, malformed padding, arbitrary bytes).")
st("C13", "exploration", "deterministic simulation: junk-filling allocator between repeated runs, write partitions as histories (MT part: schedules, see lzsim-mt mt.determ)",
   "Same input and options encoded three times with fresh non-zeroed memory filled with different patterns must be byte-identical; four write partitions (no flush) must give identical bytes for LZMA, LZIP and for LZMA2/XZ without chunk/block size.")
st("C16", "exploration", "deterministic simulation: exact byte accounting on the source seam under random read sizes and short/Interrupted reads",
   "Valid LZMA (end marker; declared size), LZMA2 and single-stream XZ followed by nothing / zeros / another stream / random bytes: when the reader reports the end the source has handed out exactly the stream's bytes, and a second reader on the same source (into_inner) decodes the following stream; two more reads after the end stay Ok(0) without touching the source. One run in 250 uses an XZ stream of 128-140 blocks (two-byte record count in the index).")
st("C18", "exploration", "deterministic simulation: post-run analysis of recorded sink contents with independent parsers under one-huge vs many-small write histories (MT unit sizes and chunk/member counts: lzsim-mt scenario mt.sizes, merged into this check)",
   "XZ index records and LZIP trailers must not exceed max(block/member size, dict) and must sum to the input; .lzma expected size: write beyond it fails, finish short of it fails, header carries the bytes written.")

st("C03", "exploration", "deterministic simulation with liblzma (static C library) as the second party on a chunked byte pipe; inputs x options by seeded generation",
   "ours->liblzma: .lzma (header), raw LZMA1 with end marker, raw LZMA2, .xz (all checks, block sizes, pre-filters) and .lz written under random histories are fed in random chunkings to lzma_alone_decoder / raw decoders / stream decoder / lzip decoder: StreamEnd, identical bytes, no input left. liblzma->ours: easy presets 0-9(+extreme), stream encoder with custom lc/lp/pb/dict/nice/mf/mode/depth, filter chains, FullFlush block boundaries, the threaded stream encoder (several blocks whose headers carry both size fields, 1-3 threads; its output does not depend on thread timing), alone encoder, raw LZMA2/LZMA1, and LZIP members wrapped by the harness around liblzma's raw LZMA1; our readers use random buffer sizes and benign short/Interrupted sources.",
   "liblzma is trusted as the reference. Restrictions that are liblzma's own: lc+lp<=4 for LZMA1, .lzma header dictionary sizes 2^n / 2^n+2^(n-1) only, no preset dictionaries through the bindings, raw LZMA1 needs the end marker.")
st("C11", "exploration", "deterministic simulation: filter readers over SimSource with short/Interrupted reads and random buffer sizes (state across the 4096-byte refill), BCJ2 over four sources with independent schedules; liblzma and a harness BCJ2 encoder as references",
   "filter.inverse: BCJReader(BCJWriter(x)) == x and DeltaReader(DeltaWriter(x)) == x for 8 architectures, aligned start offsets incl. near 2^31/2^32, distances 1..256, inputs random / real executables / synthetic branch-dense code / lengths around 0, 4096, 8192. filter.ref: filtered bytes equal liblzma's filter output (LZMA2 as lossless carrier) and our reader decodes liblzma's filtered bytes. bcj2.roundtrip: a harness encoder (7-Zip Bcj2 format, conversion decisions drawn from the PRNG) produces four streams, BCJ2Reader over four SimSources with independent short/Interrupted schedules must return x.",
   "The harness BCJ2 encoder is trusted (written from the 7-Zip format; validated only by the round trip). liblzma trusted as filter reference.")

st("C04", "fault_enumeration", "deterministic simulation with storage-fault injection between writer and reader: exhaustive single-bit flips on small files, seeded compound faults and structured field edits with CRC fix-up beyond; LZIPReaderMT under the seeded scheduler",
   "Valid XZ (with check) and LZIP files are damaged and read back: every single-bit flip of small files, random compound faults (flip/subst/zero/delete/insert/dup/swap/trunc/torn), edits of every header, size, CRC and control field with and without CRC fix-up, whole-structure edits of XZ files that leave every block intact (a block duplicated, removed, two blocks swapped, an index record removed with padding/CRC32/backward size recomputed), and non-format input. The read must fail or return exactly the original (LZIP trailing-garbage rule; damage that yields another valid file per liblzma is exempt). The MT LZIP reader gets the same treatment under seeded schedules (mt.corrupt).",
   "Bytes delivered before an eventual error are not judged. liblzma arbitrates 'another valid file'. Harness container parsers trusted.")
CHECKS["C04"]["engine"] = "lzsim-st + lzsim-mt"
st("C06", "exploration", "deterministic simulation: hostile media on the Read seam with resource monitors (panic capture, worker-process death attribution, output and allocation budgets via the allocator seam, reads after error); MT readers under the seeded scheduler with small coroutine stacks",
   "Random and structure-aware hostile inputs (CRCs recomputed so damage reaches deep parsing, extreme size/count/property fields, hostile caller parameters, tens of thousands of empty units) into every decoder incl. BCJ/BCJ2/Delta and the MT readers; each read must return Ok/Err without panic, abort, stack overflow, sticky Interrupted, runaway output or allocation beyond the declared dictionary plus an input-proportional budget; reads after an error must return too.",
   "Budgets are the harness's formulae (documented in the evidence rule); stack overflow of MT readers is judged against the coroutine stack sizes the harness chooses.")
CHECKS["C06"]["engine"] = "lzsim-st + lzsim-mt"
CHECKS["C13"]["engine"] = "lzsim-st + lzsim-mt"
CHECKS["C18"]["engine"] = "lzsim-st + lzsim-mt"

st("C17", "exploration", "deterministic simulation: the allocator seam (counting global allocator, measurement scopes) around construction and a complete run; grid by seeded generation",
   "Peak requested heap of encoders and decoders is compared with the crate's estimators (sound: peak <= estimate; tight: estimate <= 1.25 x peak + 256 KiB) over a grid of dictionary sizes, lc/lp/pb, modes and match finders; new_mem_limit must refuse with OutOfMemory before allocating whenever the header needs more than the limit.",
   "Requested bytes, not resident pages. Tightness constants measured once on the repaired tree (documented next to them in scen/memory.rs).")
st("C19", "exploration", "seeded boundary grid over the option structs executed inside the simulator (misconfiguration as the injected fault); the simulator itself adds little here",
   "Every public option field is pushed to and beyond its documented range for every writer; the outcome must be an error from some operation or a stream the crate's own reader decodes to the written bytes, never a panic.",
   "Honest caveat: this is a configuration grid with a round-trip oracle, run through the same harness; no schedule or I/O fault is involved.")
CHECKS["C14"] = dict(engine="lzsim-xcfg", category="exploration", design_ref="DESIGN.md §3 C14",
   technique="deterministic simulation of one seed against four library configurations linked into one process (shadow packages with different features), incl. position-jump and fault-injected decode runs; direct twin comparison through hook H6",
   text="Default, std-without-optimization, no_std+optimization and no_std builds of the current tree execute the same case: compressed bytes (also across a 31-bit position wrap) and decode outcomes (bytes delivered, Ok/Err, error class) for valid, truncated, damaged and garbage streams must be identical; scalar vs SIMD renormalisation and assembly vs portable decode_direct_bits are compared directly on generated state.",
   note="x86_64 little-endian host only (AVX2/SSE4.1 as detected); aarch64 assembly, NEON and big-endian branches are not executed.")

st("C15", "exploration", "deterministic simulation workloads under memory monitors: the simulator's allocator puts every library allocation >= 4 KiB directly in front of an inaccessible page (a stray access - also one made by inline assembly - kills the worker and is attributed to the case), hook H5 shadow assertions, a second pass with an unoptimised build; thorough tier adds an AddressSanitizer build and tiny cases under Miri",
   "Workloads that reach every unsafe block of the optimization feature (match extension at both window ends, input that fills the window buffer exactly, window moves, oob.stopmove: the encoder runs out of input with its look-ahead outstanding exactly where the window moves next, rep0 equal to the dictionary size; oob.movewin: several window moves per run with dictionary sizes for which the 64-byte aligned move has no slack and data whose matches sit at the largest distance the dictionary allows, finishing with < 8 bytes, SIMD renormalisation after the 31-bit position wrap, the assembly direct-bit reader at every position in the last bytes of its buffer and at the end of chunks cut to many sizes, damaged chunks) run under guard pages and with shadow assertions that restate each block's precondition immediately before it. A part of every scenario runs again in an unoptimised (cargo dev profile) build, because the optimiser may legally move a load below the bounds test the source performs after it, so that an over-read present in the source does not exist in the optimised binary. thorough: the scaled-down plan again under ASan (worker death = finding) and 64 tiny encode/decode cases under Miri.",
   "oob.stopmove is a directed construction (match-free data with planted matches at the stop position of a full window), added because the seeded search of oob.movewin did not reach the state seeded change S-C15-5 needs (DESIGN 10.6). A guard page catches accesses behind the END of an allocation (up to alignment slack) of at least 4 KiB, not in front of it and not use after free (freed mappings are recycled). Shadow assertions are hand-written restatements of the SAFETY comments; ASan cannot see asm! loads, Miri cannot execute asm!; x86_64 only.")

NOT_YET = {}
for i in range(1, 20):
    pid = f"C{i:02d}"
    if pid not in CHECKS:
        NOT_YET[pid] = "check not built yet at this commit (planned in DESIGN.md §3; not a claim of inapplicability)"

def main():
    checks = []
    for pid, c in sorted(CHECKS.items()):
        checks.append({
            "property_id": pid,
            "quick_cmd": f"./check {pid} quick",
            "thorough_cmd": f"./check {pid} thorough",
            "evidence_file": f"/verif/evidence/{pid}.json",
            "replay_cmd_template": "./check replay {path}",
            "engine": c["engine"],
            "level_claimed": {"category": c["category"], "text": c["text"], "design_ref": c["design_ref"]},
            "level_note": c["note"],
            "technique": c["technique"],
        })
    m = {
        "version": 1,
        "setup_cmd": "./check build",
        "hooks": {
            "guard": "--cfg lzma_rust2_verif (sub-switch --cfg lzma_rust2_verif_shuttle)",
            "enable": "shadow manifests under /verif/sim/shadow/* build /repo/src/lib.rs under other package names; their build.rs emits cargo:rustc-cfg=lzma_rust2_verif (lz_mt also lzma_rust2_verif_shuttle and depends on shuttle). /repo/Cargo.toml is not used by the checks.",
            "baseline_off_cmd": "/verif/tools/baseline_off.sh",
            "source_commits": hook_commits(),
            "add_only": True,
        },
        "engines": [
            {"name": "lzsim-st", "path": "/verif/sim/st", "serves_properties": sorted(p for p, c in CHECKS.items() if "lzsim-st" in c["engine"]), "kind_free_text": "seeded single-process simulator over the Read/Write/allocator seams, worker processes, minimiser, replay files"},
            {"name": "lzsim-xcfg", "path": "/verif/sim/xcfg", "serves_properties": ["C14"], "kind_free_text": "one seed executed against four feature configurations of the library linked into one process"},
            {"name": "lzsim-mt", "path": "/verif/sim/mt", "serves_properties": sorted(p for p, c in CHECKS.items() if "lzsim-mt" in c["engine"]), "kind_free_text": "the same simulator plus a seeded scheduler (own implementation of shuttle's Scheduler trait) deciding every interleaving of coordinator and worker threads"},
        ],
        "checks": checks,
        "not_applicable": [{"property_id": k, "reason": v} for k, v in sorted(NOT_YET.items())],
        "notes": "All checks exit 0 / 1 (VIOLATION property=<id> replay=<path>) / 2 (harness error). Known findings: /verif/known_findings.json. Default seed 20260923; VERIF_SEED overrides.",
    }
    with open(os.path.join(ROOT, "MANIFEST.json"), "w") as f:
        json.dump(m, f, indent=1)
        f.write("\n")

main()
