#!/bin/bash
# ./check selftest determinism [scale]
# Proves that a run is a pure function of (seed, code): every property's quick plan (scaled
# down) is executed three times - 16 worker processes, 5 worker processes, and 16 again with
# another process layout through a different stride - and the per-run event-log digests
# (run index -> digest) must be identical. A mismatch is a harness error (exit 2).
set -u
ROOT="$(cd "$(dirname "$0")/.." && pwd)"
BIN="$ROOT/sim/target/release"
what="${1:-determinism}"
scale="${2:-0.05}"
[ "$what" = "determinism" ] || { echo "usage: check selftest determinism [scale]"; exit 2; }
(cd "$ROOT/sim" && cargo build --release --offline >/dev/null 2>&1) || { echo "HARNESS-ERROR: build failed"; exit 2; }
TMP="$(mktemp -d /var/tmp/lzsim-selftest.XXXXXX)"
mkdir -p "$TMP/root"; cp "$ROOT/known_findings.json" "$TMP/root/" 2>/dev/null
rc=0; total=0
engines_of() { case "$1" in C08|C09|C10) echo lzsim-mt;; C04|C06|C13|C18) echo "lzsim-st lzsim-mt";; C14) echo lzsim-xcfg;; *) echo lzsim-st;; esac; }
for prop in C01 C02 C03 C04 C05 C06 C07 C08 C09 C10 C11 C12 C13 C14 C15 C16 C17 C18 C19; do
  for eng in $(engines_of $prop); do
    for cfg in "16" "5" "11"; do
      VERIF_ROOT="$TMP/root" VERIF_TIER=quick VERIF_PLAN_SCALE="$scale" VERIF_JOBS="$cfg" VERIF_NO_MINIMISE=1 \
        VERIF_DIGEST_OUT="$TMP/$prop.$eng.$cfg.dig" "$BIN/$eng" check "$prop" quick >/dev/null 2>&1
    done
    n=$(wc -l < "$TMP/$prop.$eng.16.dig" 2>/dev/null || echo 0)
    total=$((total + n))
    if [ "$n" -eq 0 ]; then echo "HARNESS-ERROR: $prop/$eng produced no digests"; rc=2; continue; fi
    if cmp -s "$TMP/$prop.$eng.16.dig" "$TMP/$prop.$eng.5.dig" && cmp -s "$TMP/$prop.$eng.16.dig" "$TMP/$prop.$eng.11.dig"; then
      echo "ok   $prop $eng: $n runs x 3 process layouts, digests identical"
    else
      echo "HARNESS-ERROR: $prop $eng: digests differ between process layouts"
      diff "$TMP/$prop.$eng.16.dig" "$TMP/$prop.$eng.5.dig" | head -5
      rc=2
    fi
  done
done
echo "selftest determinism: $total runs compared across 3 layouts, rc=$rc"
rm -rf "$TMP"
exit $rc
