#!/usr/bin/env python3
"""tools/write_meta.py <seed id> <property> <caught_by,comma> <needs> [--note text]
Writes /verif/seeded/<id>/meta.json (after tools/confirm_seed.sh confirmed it)."""
import json, sys, os
sid, prop, caught, needs = sys.argv[1:5]
note = sys.argv[6] if len(sys.argv) > 6 and sys.argv[5] == '--note' else ''
d = f'/verif/seeded/{sid}'
log = f'/var/tmp/confirm2_{sid}.log'
if not os.path.exists(log): log = f'/var/tmp/confirm_{prop}.log'
conf = open(log).read() if os.path.exists(log) else ''
meta = {
  "id": sid,
  "property": prop,
  "origin": "independent sub-agent given only the property text and its own scratch worktree of /repo (nothing from /verif)",
  "needs_to_manifest": needs,
  "confirmed_by_me": {
     "how": "tools/confirm_seed2.sh in the agent's worktree: both feature sets build; cargo nextest with the change: all 179 stable baseline tests pass; tests/seeded_demo.rs fails with the change and passes with it reverted",
     "log_tail": [l for l in conf.splitlines() if l.startswith('==') or 'CONFIRMED' in l],
  },
  "checked_with": f"tools/try_seed.sh {sid} (git -C /repo apply patch.diff; ./check <prop> quick; git -C /repo checkout -- .)",
  "caught_by": [c for c in caught.split(',') if c],
  "note": note,
}
json.dump(meta, open(f'{d}/meta.json','w'), indent=1)
print('wrote', f'{d}/meta.json')
