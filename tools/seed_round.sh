#!/bin/bash
# tools/seed_round.sh <Cxx> <n> <worktree-root>   e.g. tools/seed_round.sh C01 4 /tmp/seed7
# Confirms the change a sub-agent left in <worktree-root>/<Cxx> (tools/confirm_seed2.sh) as
# S-<Cxx>-<n> and, if confirmed, runs it against the quick check of its own property.
set -u
p="$1"; n="$2"; root="$3"; id="S-$p-$n"
ROOT="$(cd "$(dirname "$0")/.." && pwd)"
"$ROOT/tools/confirm_seed2.sh" "$id" "$root/$p" "$root/$p" 2>&1 | tee /var/tmp/confirm2_$id.log | grep -E '^==|CONFIRMED|FAIL|MISSING'
grep -q "^CONFIRMED $id" /var/tmp/confirm2_$id.log || exit 1
rm -rf "$root/$p/target"
shift 3
"$ROOT/tools/try_seed.sh" "$id" $p "$@" 2>&1 | tee "$ROOT/seeded/$id/check_output.txt"
